"""C11 -- Cooperator advances only runnable tasks, completes each once, starves none.

Deductive: the per-task protocol of CooperativeTask (loop free apart from the walk over the completion Deferreds).
_oneWorkUnit under every outcome of next(iterator) -- a value, a Deferred, StopIteration, an Exception, a non-Exception
BaseException: completion happens exactly for exhaustion (TaskDone, result the iterator) and for a raise (TaskFailed,
result a Failure), every whenDone Deferred is fired exactly once, a yielded Deferred pauses the task, takes it out of the
cooperator and hooks resume / failure continuations.  stop(): TaskStopped, completion Deferreds fired once, and a later
failure of the Deferred the task was waiting on changes nothing (the scenario of finding F2 / fix d8cb39d).  pause /
resume / stop on a finished task raise the completion state; resume without pause raises NotPaused.
Bounded (contracts/parts/C11_bounded.py): whole histories on the real Cooperator with a deterministic scheduler.
"""
from pyvc.api import *
from pyvc import core
from contracts._parts import bounded
from twisted.internet import task
from twisted.internet.defer import Deferred
from twisted.python.failure import Failure

M = "twisted.internet.task"


class AnyException(Exception):
    pass


class AnyBaseException(BaseException):
    pass


def mk_failure(I, *a, **kw):
    if a and isinstance(a[0], BaseException):
        return Failure(a[0])
    return Failure(RuntimeError("the exception being handled"))


def next_model(I, it, *default):
    c = ctx()
    how = c.ghost["outcome"]
    c.emit("next", it, (how,))
    if how == "value":
        return c.ghost["$contract"].opaque("value")
    if how == "deferred":
        return c.ghost["yielded"]
    if how == "stop":
        raise StopIteration()
    if how == "exc":
        raise AnyException("iterator failed")
    raise AnyBaseException("iterator failed badly")


CALLS = {"next": next_model, "builtins.next": next_model, "Failure": mk_failure,
         "Deferred.addCallbacks": callout("addCallbacks")}


def mktask(c, outcome="value", pause_count=0, state=None, result=None):
    deferreds = [c.opaque("done1"), c.opaque("done2")]
    yielded = c.make(Deferred, "yielded", called=False, callbacks=[])
    t = c.make(task.CooperativeTask, _iterator=c.opaque("iterator"), _cooperator=c.opaque("cooperator"),
               _deferreds=list(deferreds), _pauseCount=pause_count, _completionState=state, _completionResult=result)
    return t, deferreds, yielded


def fired(S, name):
    return [e for e in S.trace if e.name == name]


def completed_once(S, with_check):
    """each completion Deferred called back exactly once, with a result accepted by with_check"""
    out = True
    for n in ("done1", "done2"):
        ev = fired(S, n + ".callback")
        out = band(out, len(ev) == 1, True if len(ev) != 1 else with_check(ev[0].args[0]), len(fired(S, n + ".errback")) == 0)
    return out


class OneWorkUnit(Contract):
    prop = "C11"
    module = M
    function = "CooperativeTask._oneWorkUnit"
    also = ["CooperativeTask._completeWith", "CooperativeTask.pause"]
    differential = False
    calls = CALLS
    inputs = dict(outcome=OneOf("value", "deferred", "stop", "exc", "base"))
    trusted = ["next(iterator) as a call-out with five representative outcomes (the code discriminates only StopIteration / "
               "BaseException / Deferred-or-not)"]

    def setup(self, i):
        t, deferreds, yielded = mktask(self, i.outcome)
        return dict(self=t, args=[], objs=dict(t=t), ghost=dict(outcome=i.outcome, yielded=yielded, iterator=t._iterator))

    def bounded_inputs(self, tier):
        return iter(())

    raises = ()

    def _protocol(S):
        t, how = S.new.t, S.i.outcome
        nxt = fired(S, "next")
        if len(nxt) != 1:
            return False
        if how == "value":
            return band(t._completionState is None, t._pauseCount == 0, len(S.trace) == 1)
        if how == "deferred":
            hook = fired(S, "addCallbacks")
            return band(t._completionState is None, t._pauseCount == 1, len(fired(S, "cooperator._removeTask")) == 1,
                        len(hook) == 1, hook[0].target is S.ghost["yielded"], len(hook[0].args) == 2,
                        len(fired(S, "done1.callback")) == 0, len(fired(S, "done2.callback")) == 0)
        if how == "stop":
            return band(isinstance(t._completionState, task.TaskDone), t._completionResult is S.ghost["iterator"],
                        completed_once(S, lambda r: r is S.ghost["iterator"]), len(fired(S, "cooperator._removeTask")) == 1)
        return band(isinstance(t._completionState, task.TaskFailed), isinstance(t._completionResult, Failure),
                    completed_once(S, lambda r: isinstance(r, Failure)), len(fired(S, "cooperator._removeTask")) == 1)

    ensures = dict(completes_exactly_for_exhaustion_or_raise_and_once=_protocol)
    canaries = [("except BaseException:", "except Exception:", "raises/unexpected"),
                ("self.pause()", "pass", "completes_exactly_for_exhaustion_or_raise_and_once")]


class StopThenLateFailure(Contract):
    """the task yielded a Deferred, is stopped while waiting, then that Deferred fails: one completion, TaskStopped"""
    prop = "C11"
    module = M
    function = "CooperativeTask._oneWorkUnit"  # the continuation that must ignore the late failure is defined there
    also = ["CooperativeTask.stop", "CooperativeTask._completeWith", "CooperativeTask._checkFinish"]
    differential = False
    calls = CALLS
    inputs = dict(late=OneOf("errback", "callback", "nothing"))

    def setup(self, i):
        t, deferreds, yielded = mktask(self, "deferred")

        def drive(call):
            c = ctx()
            call(t, "_oneWorkUnit")
            hook = [e for e in c.trace if e.name == "addCallbacks"][0]
            on_ok, on_err = hook.args[0], hook.args[1]
            call(t, "stop")
            I = c.ghost["$interp"]
            if i.late == "errback":
                I.call(on_err, [Failure(RuntimeError("late"))])
            elif i.late == "callback":
                I.call(on_ok, [None])
            return None
        return dict(drive=drive, objs=dict(t=t), ghost=dict(outcome="deferred", yielded=yielded, iterator=t._iterator))

    def bounded_inputs(self, tier):
        return iter(())

    raises = ()

    def _once(S):
        t = S.new.t
        return band(isinstance(t._completionState, task.TaskStopped),
                    completed_once(S, lambda r: isinstance(r, Failure) and isinstance(r.value, task.TaskStopped)),
                    # the late result neither completes the task again nor puts it back into the cooperator
                    len(fired(S, "cooperator._addTask")) == 0)

    ensures = dict(stopped_once_and_late_result_ignored=_once)
    canaries = [("if self._completionState is None:", "if True:", "stopped_once_and_late_result_ignored")]


class FinishedOrNotPaused(Contract):
    prop = "C11"
    module = M
    function = "CooperativeTask.resume"
    also = ["CooperativeTask.pause", "CooperativeTask.stop", "CooperativeTask._checkFinish"]
    differential = False
    calls = CALLS
    inputs = dict(op=OneOf("pause", "resume", "stop"), finished=OneOf(None, "done", "failed", "stopped"),
                  paused=Int(lo=0, small=[0, 1, 2]))

    def setup(self, i):
        state = {None: None, "done": task.TaskDone(), "failed": task.TaskFailed(), "stopped": task.TaskStopped()}[i.finished]
        t, deferreds, yielded = mktask(self, "value", pause_count=i.paused, state=state, result=self.opaque("result") if state else None)
        return dict(fn=getattr(task.CooperativeTask, i.op), args=[t], objs=dict(t=t), ghost=dict(state=state))

    def bounded_inputs(self, tier):
        return iter(())

    raises = (task.TaskFinished, task.NotPaused)

    def _matching(S):
        t, st = S.new.t, S.ghost["state"]
        if S.i.op in ("pause", "stop") and st is not None:
            # a finished task refuses with its own completion state and nothing changes
            return band(S.exc is st, len(S.trace) == 0, veq(t._pauseCount, S.old.t._pauseCount))
        if S.i.op == "resume" and S.exc is not None:
            return band(isinstance(S.exc, task.NotPaused), S.i.paused == 0, len(S.trace) == 0)
        if S.i.op == "resume":
            back = len(fired(S, "cooperator._addTask"))
            runnable_again = band(S.i.paused == 1, st is None)
            return band(S.i.paused >= 1, t._pauseCount == S.i.paused - 1,
                        veq(back == 1, runnable_again) if is_sym(runnable_again) else back == (1 if runnable_again else 0))
        if S.i.op == "pause":
            out = len(fired(S, "cooperator._removeTask"))
            first = S.i.paused == 0
            return band(S.exc is None, t._pauseCount == S.i.paused + 1,
                        veq(out == 1, first) if is_sym(first) else out == (1 if first else 0))
        return band(S.exc is None, isinstance(t._completionState, task.TaskStopped))

    ensures = dict(finished_tasks_refuse_with_their_state_and_pause_counts_nest=_matching)
    canaries = [("if self._pauseCount == 0 and self._completionState is None:", "if self._pauseCount == 0:", "finished_tasks_refuse_with_their_state_and_pause_counts_nest")]



class CooperatorStop(Contract):
    """Cooperator.stop(): every task it holds is completed -- each completion Deferred errbacked exactly once with
    SchedulerStopped -- whatever their number; nothing stays registered or scheduled.  (The real _completeWith /
    _removeTask run inline: they take the task out of the very list stop() walks -- the defect repaired by /repo f338513.)"""
    prop = "C11"
    module = M
    function = "Cooperator.stop"
    also = ["CooperativeTask._completeWith", "Cooperator._removeTask"]
    differential = False
    calls = CALLS
    inputs = dict(n=OneOf(0, 1, 2, 3, 4), scheduled=ForkBool(), started=ForkBool())

    def setup(self, i):
        coop = self.make(task.Cooperator, _tasks=[], _stopped=False, _started=i.started, _mustScheduleOnStart=False,
                         _delayedCall=self.opaque("delayedcall") if i.scheduled else None,
                         _terminationPredicateFactory=self.opaque("predfactory"), _scheduler=self.opaque("scheduler"),
                         _metarator=None)
        tasks, done = [], []
        for k in range(i.n):
            ds = [self.opaque("done%d_a" % k), self.opaque("done%d_b" % k)]
            t = self.make(task.CooperativeTask, "task%d" % k, _iterator=self.opaque("iterator%d" % k), _cooperator=coop,
                          _deferreds=list(ds), _pauseCount=0, _completionState=None, _completionResult=None)
            tasks.append(t)
            done.append(ds)
        (coop._tasks if self.mode != "symbolic" else coop._fields["_tasks"]).extend(tasks)
        return dict(self=coop, args=[], objs=dict(coop=coop), ghost=dict(tasks=tasks, done=done))

    def bounded_inputs(self, tier):
        return iter(())  # real Cooperators are stopped in the bounded class of the same name

    raises = ()

    def _all(S):
        coop = S.new.coop
        out = band(len(list(coop._tasks)) == 0, coop._stopped is True, coop._delayedCall is None,
                   len(fired(S, "delayedcall.cancel")) == (1 if S.i.scheduled else 0))
        for k, ds in enumerate(S.ghost["done"]):
            for suffix in ("a", "b"):
                name = "done%d_%s" % (k, suffix)
                ev = fired(S, name + ".callback")
                out = band(out, len(ev) == 1, len(fired(S, name + ".errback")) == 0)
                if len(ev) == 1:
                    r = ev[0].args[0]
                    out = band(out, isinstance(r, Failure) and isinstance(r.value, task.SchedulerStopped))
        return out

    ensures = dict(every_task_completed_exactly_once_with_scheduler_stopped=_all)
    canaries = [("for taskObj in list(self._tasks):", "for taskObj in self._tasks:", "every_task_completed_exactly_once_with_scheduler_stopped")]


class AddTaskWhenStopped(Contract):
    """a task added to a stopped Cooperator is completed at once with SchedulerStopped and not kept; to a running one it
    is registered once and a tick is scheduled"""
    prop = "C11"
    module = M
    function = "Cooperator._addTask"
    also = ["CooperativeTask._completeWith", "Cooperator._removeTask", "Cooperator._reschedule"]
    differential = False
    calls = dict(CALLS, **{"scheduler.__call__": lambda I, sch, fn: (ctx().emit("schedule", sch, (fn,)), ctx().ghost["$contract"].opaque("newcall"))[1]})
    inputs = dict(stopped=ForkBool(), started=ForkBool(), others=OneOf(0, 1), scheduled=ForkBool())

    def requires(self, i):
        return not (i.scheduled and i.others == 0)  # a tick is only ever pending while there are tasks

    def setup(self, i):
        coop = self.make(task.Cooperator, _tasks=[], _stopped=i.stopped, _started=i.started, _mustScheduleOnStart=False,
                         _delayedCall=self.opaque("delayedcall") if i.scheduled else None,
                         _terminationPredicateFactory=self.opaque("predfactory"), _scheduler=self.opaque("scheduler"),
                         _metarator=None)
        other = [self.make(task.CooperativeTask, "other", _iterator=self.opaque("it0"), _cooperator=coop, _deferreds=[],
                           _pauseCount=0, _completionState=None, _completionResult=None)][: i.others]
        t = self.make(task.CooperativeTask, "task", _iterator=self.opaque("it"), _cooperator=coop,
                      _deferreds=[self.opaque("done_a")], _pauseCount=0, _completionState=None, _completionResult=None)
        (coop._tasks if self.mode != "symbolic" else coop._fields["_tasks"]).extend(other)
        return dict(self=coop, args=[t], objs=dict(coop=coop, t=t), ghost=dict(other=other))

    def bounded_inputs(self, tier):
        return iter(())

    raises = ()

    def _added(S):
        coop, t = S.new.coop, S.new.t
        tasks = list(coop._tasks)
        ev = fired(S, "done_a.callback")
        if S.i.stopped:
            return band(len(tasks) == S.i.others, all(x is not S.new.t for x in tasks), len(ev) == 1,
                        True if len(ev) != 1 else isinstance(ev[0].args[0], Failure) and isinstance(ev[0].args[0].value, task.SchedulerStopped),
                        isinstance(t._completionState, task.SchedulerStopped), len(fired(S, "schedule")) == 0)
        want_tick = S.i.started and not S.i.scheduled
        return band(len(tasks) == S.i.others + 1, len(ev) == 0, t._completionState is None,
                    len(fired(S, "schedule")) == (1 if want_tick else 0),
                    (coop._delayedCall is not None) if (want_tick or S.i.scheduled) else True)

    ensures = dict(completed_at_once_when_stopped_registered_and_scheduled_otherwise=_added)
    canaries = [("        if self._stopped:\n            self._tasks.append(task)", "        if False:\n            self._tasks.append(task)",
                 "completed_at_once_when_stopped_registered_and_scheduled_otherwise")]


CONTRACTS = [OneWorkUnit, StopThenLateFailure, FinishedOrNotPaused, CooperatorStop, AddTaskWhenStopped]
BOUNDED = bounded("C11")
_SCOPE = ('real Cooperator driven by a deterministic scheduler and a work-unit-count termination predicate: 1 task x 14 scripts (values, Deferreds fired later with success or failure, pre-fired Deferreds, raising) x every history of length <= 5 over {tick, pause, resume, stop, fire-ok, fire-err, whenDone}; 2 tasks (cooperate / coiterate) x histories of length <= 3; removal of tasks during a tick for 2-8 tasks over 14 shapes incl. pausing / stopping a neighbour from inside next(); seeded random histories with 1-8 tasks and 5-60 operations; oracle: a model from the property statement (never advanced while paused / stopped / finished / waiting, whenDone / coiterate Deferreds fire exactly once with the iterator / failure / stop reason, TaskFinished subtypes, bounded wait of 2N+2 work units for a runnable task)')
NOTES = dict(explanation="CooperativeTask's per-task protocol proved (work unit outcomes, stop with a late failure, finished / not-paused refusals); "
                         "scheduling is bounded: " + _SCOPE,
             not_covered=["Cooperator._tick / _tasksWhileNotStopped (which task runs next, fairness: the known findings) and "
                          "coiterate: bounded tier only", "resume() on a task that is only waiting (shared pause count: the known finding)"])
MANIFEST = dict(
    category="proof",
    text="CooperativeTask._oneWorkUnit (with _completeWith and pause) is proved over every outcome of next(iterator): a value "
         "completes nothing; a Deferred pauses the task, removes it from the cooperator and registers the two continuations; "
         "exhaustion completes with TaskDone and the iterator, any raise (Exception or not) with TaskFailed and a Failure, each "
         "whenDone Deferred fired exactly once.  stop() while waiting on a Deferred completes once with TaskStopped and a later "
         "failure or success of that Deferred neither completes again nor re-queues the task.  pause / stop on a finished "
         "task raise its completion state and change nothing, resume without pause raises NotPaused, pause counts nest and "
         "only the outermost pause / resume touches the cooperator.  Cooperator.stop() (with the real _completeWith / "
         "_removeTask inline, which remove from the very list stop() walks) is proved for 0..4 tasks to complete every "
         "task exactly once with SchedulerStopped and to leave nothing registered or scheduled; _addTask on a stopped "
         "Cooperator completes the task at once and does not keep it, on a running one registers it and schedules a "
         "tick exactly when none is pending.  Which task runs next, fairness and coiterate are "
         "exercised in the bounded tier only: " + _SCOPE + ".",
    note="Trusted: pyvc, SMT solvers, next() / cooperator / completion Deferreds as call-outs, Failure() construction modelled. "
         "Scheduling: bounded, never counted as proved.",
    technique="contract-based deductive verification (symbolic execution with hostile call-outs and driven multi-call scenarios) + bounded exhaustive histories",
)
