"""C31 -- AMP matches answers to questions and fails pending calls on disconnect: bounded stand-in (contracts/parts/C31_bounded.py)."""
from contracts._parts import bounded, EXPLORATION_NOTE

CONTRACTS = []
BOUNDED = bounded("C31")
_SCOPE = ('two real amp.AMP peers over an in-memory byte pipe with a step scheduler: 6 scripts cut at every byte of every delivery with 6 connection-loss modes, every schedule of length <= 4 over a 13-step alphabet (calls from both sides, whole / 9-byte deliveries, firing parked responders, loss of either side), 3000 seeded random schedules of 8-60 steps; oracle: a message-level model written from the statement plus an independent box-framing reader (every callRemote Deferred fires exactly once with its own answer / error / the loss reason; calls after loss fail at once)')
NOTES = dict(explanation=_SCOPE, not_covered=["deductive contracts on the anchored functions (not built)"])
MANIFEST = dict(
    category="exploration",
    text="Bounded stand-in only, on the real code: " + _SCOPE + ".",
    note=EXPLORATION_NOTE,
    technique="bounded exhaustive evaluation of an executable contract on the real code (stand-in; not proved)",
)
