"""C31 -- AMP matches answers to questions and fails pending calls on disconnect.

Deductive, on BoxDispatcher with `_outstandingRequests` as an *arbitrary* map (an SMT array from the number whose
`%x` spelling is the tag to the reference of the pending Deferred; 0 = no entry) and pending Deferreds as abstract
references whose callback / errback / addErrback are recorded call-outs:

  _sendBoxCommand   a fresh tag (never one with a pending entry: invariant "no entry above _counter"), the box gets
                    _command and _ask and is sent exactly once, exactly one new entry, every other entry untouched, the
                    Deferred returned is new and unfired; after failAllOutgoing: nothing is sent, the Deferred returned
                    has already failed with the loss reason;
  _answerReceived / _errorReceived   exactly the Deferred stored under the box's tag is fired, exactly once, with this
                    box / with the error the box describes, after its entry -- and no other -- has been removed (so a
                    callRemote made from the callback sees a consistent map);
  failAllOutgoing   every pending Deferred gets the reason exactly once (inductive loop over an arbitrary number of
                    entries), and at each of those call-outs the dispatcher already refuses new calls
                    (_failAllReason set) -- the re-entrancy condition behind "calls made after the connection is
                    lost fail immediately";
  ampBoxReceived    _answer before _error before _command, NoEmptyBoxes otherwise.
Bounded (contracts/parts/C31_bounded.py): two real AMP peers, schedules, cuts at every byte.
"""
import z3

from pyvc.api import *
from pyvc import core, models
from pyvc.core import SRef
from contracts._parts import bounded
from twisted.internet import defer
from twisted.internet.error import ConnectionDone
from twisted.protocols import amp
from twisted.python.failure import Failure

M = "twisted.protocols.amp"
INT = z3.IntSort()


def HEX(t):
    return models.hexenc()(t)


class TagMap(models.SDict):
    """dict {tag: Deferred} whose tags are `%x` spellings of numbers.  View 1 (keyed access): an array from the number
    to a Deferred reference (0: absent).  View 2 (iteration): items() is an arbitrary list of entry references."""

    def __init__(self, name, entries=None):
        self.arr = z3.Array(name, INT, INT)
        self.arr0 = self.arr
        self.entries = entries
        self.stored = {}  # reference term -> the real object the code stored

    def _index(self, tag):
        t = z3.simplify(core.seq_term(tag, "bytes"))
        if z3.is_app(t) and t.decl().eq(models.hexenc()) and t.num_args() == 1:
            return t.arg(0)
        raise Unsupported("lookup by a tag that is not the %x spelling of a number")

    def _interp(self):
        return ctx().ghost["$interp"]

    def has(self, tag):
        return core.mk_bool(self.arr[self._index(tag)] != 0)

    def get_item(self, tag):
        k = self._index(tag)
        if self._interp().truth(core.mk_bool(self.arr[k] != 0)):
            return self._ref(self.arr[k])
        raise KeyError(tag)

    def _ref(self, term):
        for r, obj in self.stored.items():
            if z3.simplify(r == term).eq(z3.BoolVal(True)) if hasattr(z3.simplify(r == term), "eq") else False:
                return obj
        return SRef(z3.simplify(term), "Deferred")

    def set(self, tag, v):
        k = self._index(tag)
        c = ctx()
        rid = z3.Int(c.fresh_name("newref"))
        n = z3.Int(c.fresh_name("q"))
        c.assume(rid > 0)
        c.assume(z3.ForAll([n], self.arr[n] != rid))  # a new object is none of the objects already stored
        c.emit("map.store", None, (k, self.arr[k] != 0, v))
        self.stored[rid] = v
        self.arr = z3.Store(self.arr, k, rid)

    def pop(self, tag, *default):
        k = self._index(tag)
        if self._interp().truth(core.mk_bool(self.arr[k] != 0)):
            ref = self._ref(self.arr[k])
            self.arr = z3.Store(self.arr, k, 0)
            return ref
        if default:
            return default[0]
        raise KeyError(tag)

    def delete(self, tag):
        self.pop(tag)

    __delitem__ = delete

    def items(self):
        if self.entries is None:
            raise Unsupported("iteration over the outstanding requests in a keyed-access contract")
        return self.entries


def removed_only(S, k):
    """the map now is the map before without entry k (every other entry untouched)"""
    m = S.ghost["map"]
    n = z3.Int("c31!n")
    return core.mk_bool(z3.ForAll([n], m.arr[n] == z3.If(n == k, 0, m.arr0[n])))


def deferred_event(name):
    def handler(I, ref, *args, **kw):
        c = ctx()
        m = c.ghost.get("map")
        snap = {"arr": m.arr} if m is not None else {}
        c.emit("Deferred." + name, ref, args, kw, snap)
        return ref if name.startswith("add") else None
    return handler


DEFERRED_CALLS = {"Deferred.callback": deferred_event("callback"), "Deferred.errback": deferred_event("errback"),
                  "Deferred.addErrback": deferred_event("addErrback"), "Deferred.addCallback": deferred_event("addCallback")}


def is_deferred(o):
    return isinstance(o, defer.Deferred) or (isinstance(o, core.SObj) and o._cls is defer.Deferred)


def fld(o, name):
    """field of an object the code created (a real object, or its symbolic-mode stand-in)"""
    if isinstance(o, core.SObj):
        return o._fields[name] if name in o._fields else getattr(o._cls, name)
    return getattr(o, name)


def ev(S, name):
    return [e for e in S.trace if e.name == name]


class _Dispatcher(Contract):
    prop = "C31"
    module = M
    differential = False
    trusted = ["`%x` spellings of distinct non-negative numbers are distinct (tags are looked up by the number they spell)",
               "dict semantics of _outstandingRequests: an array with 0 for 'no entry'; a newly created Deferred is none "
               "of the objects already stored",
               "pending Deferreds are abstract references: callback / errback / addErrback are recorded call-outs (what "
               "a Deferred then does is C01 / C03)"]

    def dispatcher(self, i, mp, reason=None, counter=0):
        real = amp.BoxDispatcher(None)
        return self.make(amp.BoxDispatcher, **dict(vars(real), _outstandingRequests=mp, _counter=counter,
                                                   boxSender=self.opaque("sender"), _failAllReason=reason))

    def bounded_inputs(self, tier):
        return iter(())


class SendBoxCommand(_Dispatcher):
    function = "BoxDispatcher._sendBoxCommand"
    inputs = dict(counter=Int(0, None), answer=ForkBool(), lost=ForkBool())

    def setup(self, i):
        mp = None if i.lost else TagMap("pending")
        reason = Failure(ConnectionDone()) if i.lost else None
        if mp is not None:
            n = z3.Int("c31!inv")
            # invariant of the dispatcher: no pending entry carries a tag that is yet to be issued
            ctx().assume(z3.ForAll([n], z3.Implies(n > core.num_term(i.counter), mp.arr[n] == 0)))
        d = self.dispatcher(i, mp, reason, i.counter)
        box = self.opaque("box")
        return dict(self=d, args=[b"cmd", box, i.answer], objs=dict(d=d), ghost=dict(map=mp, box=box, reason=reason))

    raises = ()

    def _sent(S):
        sets, sends = ev(S, "box.__setitem__"), ev(S, "box._sendTo")
        if S.i.lost:
            return len(sets) == 0 and len(sends) == 0
        want = [(amp.COMMAND, b"cmd")] + ([(amp.ASK, None)] if S.i.answer else [])
        if len(sends) != 1 or len(sets) != len(want) or S.trace.index(sends[0]) < max(S.trace.index(e) for e in sets):
            return False
        ok = band(sets[0].args[0] == amp.COMMAND, sets[0].args[1] == b"cmd", sends[0].args[0] is S.new.d.boxSender)
        if S.i.answer:
            ok = band(ok, sets[1].args[0] == amp.ASK, veq(sets[1].args[1], core.SSeq(HEX(core.num_term(S.i.counter) + 1), "bytes")))
        return ok

    def _entry(S):
        stores = ev(S, "map.store")
        if S.i.lost:
            return band(len(stores) == 0, is_deferred(S.result) if S.i.answer else S.result is None)
        m = S.ghost["map"]
        if not S.i.answer:
            return band(len(stores) == 0, S.result is None, m.arr is m.arr0)
        if len(stores) != 1:
            return False
        k, occupied, obj = stores[0].args
        n = z3.Int("c31!n")
        rid = [r for r, o in m.stored.items() if o is obj]
        if len(rid) != 1:
            return False
        return band(obj is S.result, is_deferred(obj), fld(obj, "called") is False,
                    core.mk_bool(z3.Not(occupied)),  # no pending request's entry was replaced
                    core.mk_bool(k == core.num_term(S.i.counter) + 1),
                    core.mk_bool(z3.ForAll([n], m.arr[n] == z3.If(n == k, rid[0], m.arr0[n]))))

    def _counter(S):
        if S.i.lost:
            return veq(S.new.d._counter, S.i.counter)
        m = S.ghost["map"]
        n = z3.Int("c31!n2")
        return band(veq(S.new.d._counter, S.i.counter + 1),
                    core.mk_bool(z3.ForAll([n], z3.Implies(n > core.num_term(S.i.counter) + 1, m.arr[n] == 0))))

    def _refused(S):
        if not S.i.lost or not S.i.answer:
            return None
        r = S.result
        return band(is_deferred(r), fld(r, "called") is True, fld(r, "result") is S.ghost["reason"])

    ensures = dict(box_tagged_and_sent_exactly_once=_sent, exactly_one_new_entry_and_no_other_touched=_entry,
                   tag_counter_advances_and_invariant_kept=_counter, after_loss_fails_at_once_with_the_reason=_refused)
    canaries = [("tag = self._nextTag()", "tag = b\"%x\" % (self._counter,)", "exactly_one_new_entry_and_no_other_touched"),
                ("if self._failAllReason is not None:", "if self._outstandingRequests is None and False:", "!verify"),
                ("box._sendTo(self.boxSender)", "pass", "box_tagged_and_sent_exactly_once")]


class AnswerReceived(_Dispatcher):
    function = "BoxDispatcher._answerReceived"
    calls = DEFERRED_CALLS
    inputs = dict(k=Int(0, None))
    KEY = amp.ANSWER

    def setup(self, i):
        mp = TagMap("pending")
        d = self.dispatcher(i, mp)
        box = self.box(i)
        return dict(self=d, args=[box], objs=dict(d=d), ghost=dict(map=mp, box=box))

    def box(self, i):
        return {self.KEY: core.SSeq(HEX(core.num_term(i.k)), "bytes")}

    raises = {KeyError: lambda S: core.mk_bool(S.ghost["map"].arr0[core.num_term(S.i.k)] == 0)}

    def _fired(S):
        if S.exc is not None:
            return None
        m = S.ghost["map"]
        cb, eb, ae = ev(S, "Deferred.callback"), ev(S, "Deferred.errback"), ev(S, "Deferred.addErrback")
        if len(cb) != 1 or eb or len(ae) != 1 or S.trace.index(ae[0]) > S.trace.index(cb[0]):
            return False
        k = core.num_term(S.i.k)
        n = z3.Int("c31!n")
        at_call = cb[0].snap["arr"]
        return band(core.mk_bool(cb[0].target.term == m.arr0[k]), cb[0].args[0] is S.ghost["box"],
                    core.mk_bool(ae[0].target.term == m.arr0[k]),
                    # at the moment the application's callback runs, the entry (and only it) is already gone
                    core.mk_bool(z3.ForAll([n], at_call[n] == z3.If(n == k, 0, m.arr0[n]))))

    ensures = dict(own_deferred_fired_once_with_this_box_after_its_entry_was_removed=_fired,
                   only_that_entry_removed=lambda S: None if S.exc else removed_only(S, core.num_term(S.i.k)))
    canaries = [("question = self._outstandingRequests.pop(box[ANSWER])", "question = self._outstandingRequests[box[ANSWER]]", "only_that_entry_removed"),
                ("question.callback(box)", "pass", "own_deferred_fired_once_with_this_box_after_its_entry_was_removed")]


class ErrorReceived(AnswerReceived):
    function = "BoxDispatcher._errorReceived"
    KEY = amp.ERROR
    calls = dict(DEFERRED_CALLS, Failure="native")
    inputs = dict(k=Int(0, None), code=OneOf(amp.UNHANDLED_ERROR_CODE, amp.UNKNOWN_ERROR_CODE, b"APP_ERROR"),
                  text=ForkBool())

    def box(self, i):
        desc = "described" if i.text else b"described"
        return {self.KEY: core.SSeq(HEX(core.num_term(i.k)), "bytes"), amp.ERROR_CODE: i.code, amp.ERROR_DESCRIPTION: desc}

    def _failed(S):
        if S.exc is not None:
            return None
        m = S.ghost["map"]
        cb, eb, ae = ev(S, "Deferred.callback"), ev(S, "Deferred.errback"), ev(S, "Deferred.addErrback")
        if len(eb) != 1 or cb or len(ae) != 1 or S.trace.index(ae[0]) > S.trace.index(eb[0]):
            return False
        k = core.num_term(S.i.k)
        n = z3.Int("c31!n")
        f = eb[0].args[0]
        if not isinstance(f, Failure):
            return False
        want = amp.UnhandledCommand if S.i.code == amp.UNHANDLED_ERROR_CODE else amp.RemoteAmpError
        described = True if want is amp.UnhandledCommand else (f.value.errorCode == S.i.code and f.value.description == "described")
        return band(core.mk_bool(eb[0].target.term == m.arr0[k]), type(f.value) is want, described,
                    core.mk_bool(z3.ForAll([n], eb[0].snap["arr"][n] == z3.If(n == k, 0, m.arr0[n]))))

    ensures = dict(own_deferred_failed_once_with_the_error_the_box_describes=_failed,
                   only_that_entry_removed=lambda S: None if S.exc else removed_only(S, core.num_term(S.i.k)))
    canaries = [("question = self._outstandingRequests.pop(box[ERROR])", "question = self._outstandingRequests[box[ERROR]]", "only_that_entry_removed"),
                ("if errorCode in PROTOCOL_ERRORS:", "if False:", "own_deferred_failed_once_with_the_error_the_box_describes")]


def entry_errback(I, ref, reason, *a, **kw):
    """errback on one pending Deferred during failAllOutgoing: counted; must be the next entry, with the reason; and a
    callRemote made from inside it must already be refused"""
    c = ctx()
    g = c.ghost
    k = g["notified"]
    d = g["$objs"]["d"]
    c.oblige("%s/callout/next-pending-deferred-gets-the-reason" % g["$contract"].name,
             band(veq(ref, SRef(g["entries"][k].term, "Deferred")), reason is g["reason"]), "callout")
    c.oblige("%s/callout/new-calls-already-refused-while-pending-ones-fail" % g["$contract"].name,
             band(d._fields.get("_failAllReason") is g["reason"], d._fields.get("_outstandingRequests") is None), "callout")
    g["notified"] = k + 1
    c.emit("Deferred.errback", ref, (reason,))


class FailAllOutgoing(_Dispatcher):
    function = "BoxDispatcher.failAllOutgoing"
    calls = {"Deferred.errback": entry_errback,
             "unpack:Entry": lambda I, ref: (core.SSeq(HEX(z3.Int("c31!tagof") + 0), "bytes"), SRef(ref.term, "Deferred"))}
    inputs = dict(entries=RefList("Entry"))
    loops = {"BoxDispatcher.failAllOutgoing#0": LoopSpec(inv=lambda v: v.notified == v._i, ghost=("notified",))}

    def setup(self, i):
        mp = TagMap("pending", entries=i.entries)
        d = self.dispatcher(i, mp)
        reason = Failure(ConnectionDone())
        return dict(self=d, args=[reason], objs=dict(d=d), ghost=dict(map=mp, notified=0, entries=i.entries, reason=reason))

    raises = ()
    ensures = dict(every_pending_deferred_gets_the_reason_once=lambda S: S.ghost["notified"] == L(S.i.entries),
                   refuses_new_calls_afterwards=lambda S: band(S.new.d._failAllReason is S.ghost["reason"],
                                                               S.new.d._outstandingRequests is None))
    canaries = [("for key, value in OR:", "for key, value in OR[:1]:", "every_pending_deferred_gets_the_reason_once")]


def handler_event(name):
    def h(I, *args):
        ctx().emit(name, None, args[-1:])
    return h


class AmpBoxReceived(_Dispatcher):
    function = "BoxDispatcher.ampBoxReceived"
    summaries = {"BoxDispatcher._answerReceived": handler_event("answer"), "BoxDispatcher._errorReceived": handler_event("error"),
                 "BoxDispatcher._commandReceived": handler_event("command")}
    inputs = dict(a=ForkBool(), e=ForkBool(), c=ForkBool())

    def setup(self, i):
        d = self.dispatcher(i, TagMap("pending"))
        box = amp.AmpBox()
        for flag, key in ((i.a, amp.ANSWER), (i.e, amp.ERROR), (i.c, amp.COMMAND)):
            if flag:
                box[key] = b"1"
        return dict(self=d, args=[box], objs=dict(d=d), ghost=dict(box=box))

    raises = {amp.NoEmptyBoxes: lambda S: not (S.i.a or S.i.e or S.i.c)}

    def _one(S):
        got = [e.name for e in S.trace if e.name in ("answer", "error", "command")]
        want = ["answer"] if S.i.a else ["error"] if S.i.e else ["command"] if S.i.c else []
        return got == want and all(e.args[0] is S.ghost["box"] for e in S.trace if e.name in want)

    ensures = dict(exactly_one_handler_answer_before_error_before_command=_one)
    canaries = [("elif ERROR in box:", "elif ERROR in box and COMMAND not in box:", "exactly_one_handler_answer_before_error_before_command")]


class Undeclared(Exception):
    """an exception the command does not declare"""


def responder_outcome(I, *args):
    """dispatchCommand as seen by _commandReceived: a Deferred that has fired with the responder's answer box, with a
    declared error (RemoteAmpError: fatal or not, text or bytes description) or with anything else"""
    g = ctx().ghost
    kind = g["outcome"]
    ctx().emit("dispatchCommand", None, args[-1:])
    if kind == "answer":
        return defer.succeed(g["answer"])
    if kind == "undeclared":
        return defer.fail(Failure(Undeclared("boom")))
    err = amp.RemoteAmpError(b"DECLARED", "why" if kind.endswith("text") else b"why", fatal=kind.startswith("fatal"))
    return defer.fail(Failure(err))


def sent_box(I, box, proto):
    """AmpBox._sendTo / QuitBox._sendTo: recorded with a copy of the box as it is at that moment"""
    ctx().emit("sendTo", box, (proto, dict(box), type(box)))


sent_box.wants_receiver = True


class CommandReceived(_Dispatcher):
    """the answer / error box carries the question's own tag; undeclared errors become UNKNOWN and close the connection"""
    function = "BoxDispatcher._commandReceived"
    summaries = {"BoxDispatcher.dispatchCommand": responder_outcome}
    calls = {"Failure": "native", "AmpBox": "native", "QuitBox": "native", "AmpBox._sendTo": sent_box, "QuitBox._sendTo": sent_box,
             "Logger.failure": lambda I, *a, **kw: ctx().emit("log.failure", None, ())}
    inputs = dict(ask=ForkBool(), tag=Bytes(alphabet=b"1a", small_len=2),
                  outcome=OneOf("answer", "declared-text", "declared-bytes", "fatal-text", "undeclared"))

    def setup(self, i):
        d = self.dispatcher(i, TagMap("pending"))
        box = amp.AmpBox({amp.COMMAND: b"cmd"})
        if i.ask:
            box[amp.ASK] = i.tag
        answer = amp.AmpBox({b"result": b"42"})
        return dict(self=d, args=[box], objs=dict(d=d), ghost=dict(box=box, outcome=i.outcome, answer=answer))

    raises = ()

    def _reply(S):
        sent = ev(S, "sendTo")
        unhandled = ev(S, "sender.unhandledError")
        if not S.i.ask:
            # no answer wanted: nothing goes back; a failure is reported to the box sender
            return len(sent) == 0 and len(unhandled) == (0 if S.i.outcome == "answer" else 1)
        if len(sent) != 1 or unhandled:
            return False
        proto, content, kind = sent[0].args
        if proto is not S.new.d.boxSender:
            return False
        if S.i.outcome == "answer":
            return band(sent[0].target is S.ghost["answer"], veq(content.get(amp.ANSWER), S.i.tag), amp.ERROR not in content,
                        content.get(b"result") == b"42")
        if S.i.outcome == "undeclared":
            return band(kind is amp.QuitBox, veq(content.get(amp.ERROR), S.i.tag), amp.ANSWER not in content,
                        content.get(amp.ERROR_CODE) == amp.UNKNOWN_ERROR_CODE, content.get(amp.ERROR_DESCRIPTION) == b"Unknown Error",
                        len(ev(S, "log.failure")) == 1)
        return band(kind is (amp.QuitBox if S.i.outcome.startswith("fatal") else amp.AmpBox), veq(content.get(amp.ERROR), S.i.tag),
                    amp.ANSWER not in content, content.get(amp.ERROR_CODE) == b"DECLARED", content.get(amp.ERROR_DESCRIPTION) == b"why")

    ensures = dict(one_reply_carrying_the_questions_own_tag=_reply)
    canaries = [("answerBox[ANSWER] = box[ASK]", "answerBox[ANSWER] = box[COMMAND]", "one_reply_carrying_the_questions_own_tag"),
                ("errorBox[ERROR] = box[ASK]", "errorBox[ERROR] = code", "one_reply_carrying_the_questions_own_tag"),
                ("code = UNKNOWN_ERROR_CODE", "code = UNHANDLED_ERROR_CODE", "one_reply_carrying_the_questions_own_tag")]


CONTRACTS = [SendBoxCommand, AnswerReceived, ErrorReceived, FailAllOutgoing, AmpBoxReceived, CommandReceived]
for _k in CONTRACTS:
    _k.replay_decides = False  # the table of outstanding requests is an SMT array that is not an input
BOUNDED = bounded("C31")
_SCOPE = ('two real amp.AMP peers over an in-memory byte pipe with a step scheduler: 6 scripts cut at every byte of every delivery with 6 connection-loss modes, every schedule of length <= 4 over a 13-step alphabet (calls from both sides, whole / 9-byte deliveries, firing parked responders, loss of either side), 3000 seeded random schedules of 8-60 steps; oracle: a message-level model written from the statement plus an independent box-framing reader (every callRemote Deferred fires exactly once with its own answer / error / the loss reason; calls after loss fail at once)')
NOTES = dict(explanation="BoxDispatcher's request table proved for an arbitrary map of pending requests; whole peers bounded: " + _SCOPE,
             not_covered=["Command._doCommand / responder wrapping (argument parsing, the caller-side mapping of undeclared error codes "
                          "to UnknownRemoteError), responders that answer later (_commandReceived is proved for a responder whose "
                          "Deferred has fired; a later firing runs the same callbacks, C01), BinaryBoxProtocol framing (C30), "
                          "ProtocolSwitchCommand: bounded tier only"])
MANIFEST = dict(
    category="proof",
    text="BoxDispatcher is proved, for an arbitrary table of pending requests (an SMT array) and an arbitrary tag counter: "
         "_sendBoxCommand issues a tag that no pending request carries (invariant: no entry above the counter, kept), tags and "
         "sends the box exactly once, adds exactly one entry and touches no other, and returns a new unfired Deferred -- or, "
         "after failAllOutgoing, sends nothing and returns a Deferred that has already failed with the loss reason; "
         "_answerReceived / _errorReceived fire exactly the Deferred stored under the box's tag, once, with this box / with "
         "the error the box describes (UnhandledCommand for the protocol's own code, RemoteAmpError otherwise), after "
         "removing exactly that entry (KeyError exactly when there is none); failAllOutgoing gives every pending Deferred "
         "the reason exactly once (inductive over any number of entries) and already refuses new calls while it does so; "
         "ampBoxReceived dispatches to exactly one handler; _commandReceived sends back exactly one box carrying the "
         "question's own tag -- the responder's answer, the declared error's code and description (QuitBox if fatal), or "
         "UNKNOWN / 'Unknown Error' in a QuitBox, logged, for an undeclared error -- and nothing when no answer was asked "
         "for.  What a Deferred then does is C01/C03.  Whole peers, responders, "
         "argument parsing and framing are exercised in the bounded tier only: " + _SCOPE + ".",
    note="Trusted: pyvc, SMT solvers, `%x` injective, dict-as-array model, pending Deferreds as abstract references.  Everything else: bounded, never counted as proved.",
    technique="contract-based deductive verification (symbolic execution over an SMT-array model of the request table, recorded call-outs with state snapshots, inductive loop) + bounded exhaustive schedules of two real peers",
)
