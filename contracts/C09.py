"""C09 -- task.Clock runs scheduled calls exactly once in time order: bounded stand-in (contracts/parts/C09_bounded.py)."""
from contracts._parts import bounded, EXPLORATION_NOTE

CONTRACTS = []
BOUNDED = bounded("C09")
_SCOPE = ('real task.Clock: every history of up to 5 operations (callLater / cancel / reset / delay / advance, dyadic times, mods aimed at run and cancelled calls too) with up to 3 calls, nested scripts (calls that schedule, cancel, reset, delay from inside a running call) and seeded random histories of up to 40 operations nested 4 deep; oracle: an observer written from the property statement (exactly once, first reaching advance, nondecreasing time, creation order on ties, getDelayedCalls = pending set)')
NOTES = dict(explanation=_SCOPE, not_covered=["deductive contracts on the anchored functions (not built)"])
MANIFEST = dict(
    category="exploration",
    text="Bounded stand-in only, on the real code: " + _SCOPE + ".",
    note=EXPLORATION_NOTE,
    technique="bounded exhaustive evaluation of an executable contract on the real code (stand-in; not proved)",
)
