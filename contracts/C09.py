"""C09 -- task.Clock runs scheduled calls exactly once in time order.

Deductive (floats as reals): the rescheduling protocol of DelayedCall, which both task.Clock (C09) and the reactor
(C08) rely on.  reset / delay / cancel / activate_delay are loop free, so their symbolic execution over every state
(cancelled, called, arbitrary real time / delayed_time / now / argument) is exhaustive: reset(s) makes getTime() == now + s,
delay(s) makes getTime() grow by s, the stored key `time` never increases and the resetter is told exactly when it
decreased, delayed_time stays >= 0, cancel() calls the canceller exactly once and a cancelled or called call refuses every
operation with the matching exception and changes nothing.
Bounded (contracts/parts/C09_bounded.py): whole histories on the real task.Clock.
"""
import z3

from pyvc.api import *
from pyvc import core
from contracts._parts import bounded
from twisted.internet import base, error

M = "twisted.internet.base"
STATE = dict(t=Real(small=[0.0, 1.0]), d=Real(small=[0.0, 0.5]), now=Real(small=[0.0, 2.0]), s=Real(small=[-1.5, 0.0, 1.0]),
             cancelled=ForkBool(), called=ForkBool())
CALLS = {"seconds.__call__": lambda I, o: ctx().ghost["now"]}
FIELDS = ("time", "delayed_time", "cancelled", "called")


def mkdc(c, i):
    dc = c.make(base.DelayedCall, time=i.t, delayed_time=i.d, cancelled=1 if i.cancelled else 0, called=1 if i.called else 0,
                func=c.opaque("func"), args=(), kw={}, canceller=c.opaque("canceller"), resetter=c.opaque("resetter"),
                seconds=c.opaque("seconds"), debug=False)
    return dc


def unchanged(S):
    return band(*[veq(getattr(S.old.dc, f), getattr(S.new.dc, f)) for f in FIELDS])


def events(S, name):
    return [e for e in S.trace if e.name == name]


def refused(S):
    """a cancelled / called call: the matching exception, no call-out, nothing changed"""
    return band(len(S.trace) == 0, unchanged(S))


class _Op(Contract):
    prop = "C09"
    module = M
    calls = CALLS
    inputs = STATE
    differential = False

    def requires(self, i):
        return i.d >= 0  # invariant of DelayedCall established by every operation below

    def setup(self, i):
        dc = mkdc(self, i)
        return dict(self=dc, args=self.op_args(i), objs=dict(dc=dc), ghost=dict(now=i.now))

    raises = {error.AlreadyCancelled: lambda S: S.i.cancelled,
              error.AlreadyCalled: lambda S: band(bnot(S.i.cancelled), S.i.called)}

    def bounded_inputs(self, tier):
        return iter(())  # opaque collaborators; the real objects are exercised by the bounded part


def _key_protocol(S):
    """the stored key never increases; the resetter is told exactly once when it decreased, never otherwise"""
    if S.exc is not None:
        return refused(S)
    r = events(S, "resetter.__call__")
    decreased = S.new.dc.time < S.old.dc.time
    # told at least when it decreased (what the heap needs); an extra notification for an unchanged key is harmless
    return band(S.new.dc.time <= S.old.dc.time, S.new.dc.delayed_time >= 0,
                len(r) <= 1, implies(decreased, len(r) == 1), len(S.trace) == len(r),
                True if not r else r[0].args[0] is S.new.dc,
                veq(S.new.dc.cancelled, S.old.dc.cancelled), veq(S.new.dc.called, S.old.dc.called))


class Reset(_Op):
    function = "DelayedCall.reset"

    def op_args(self, i):
        return [i.s]

    ensures = dict(
        scheduled_for_now_plus_s=lambda S: None if S.exc else S.new.dc.time + S.new.dc.delayed_time == S.i.now + S.i.s,
        key_never_increases_resetter_iff_decreased=_key_protocol,
    )
    canaries = [("if newTime < self.time:", "if newTime <= self.time:", None),  # harmless: equal key, extra resetter call is not made
                ("self.delayed_time = newTime - self.time", "self.delayed_time = newTime", "scheduled_for_now_plus_s"),
                ("self.resetter(self)", "pass", "key_never_increases_resetter_iff_decreased")]


class Delay(_Op):
    function = "DelayedCall.delay"
    also = ["DelayedCall.activate_delay"]

    def op_args(self, i):
        return [i.s]

    ensures = dict(
        scheduled_s_later=lambda S: None if S.exc else S.new.dc.time + S.new.dc.delayed_time == S.i.t + S.i.d + S.i.s,
        key_never_increases_resetter_iff_decreased=_key_protocol,
    )
    canaries = [("if self.delayed_time < 0.0:", "if self.delayed_time < -1.0:", "key_never_increases_resetter_iff_decreased")]


class Cancel(_Op):
    function = "DelayedCall.cancel"

    def op_args(self, i):
        return []

    def _cancelled(S):
        if S.exc is not None:
            return refused(S)
        c = events(S, "canceller.__call__")
        return band(len(S.trace) == 1, len(c) == 1, c[0].args[0] is S.new.dc, S.new.dc.cancelled == 1,
                    veq(S.new.dc.time, S.old.dc.time), veq(S.new.dc.delayed_time, S.old.dc.delayed_time),
                    "func" not in S.new.dc._fields, "args" not in S.new.dc._fields, "kw" not in S.new.dc._fields)

    ensures = dict(canceller_called_once_and_marked=_cancelled)
    canaries = [("self.canceller(self)", "pass", "canceller_called_once_and_marked")]


class GetTime(_Op):
    function = "DelayedCall.getTime"
    raises = ()

    def op_args(self, i):
        return []

    ensures = dict(time_plus_delay=lambda S: band(S.result == S.i.t + S.i.d, len(S.trace) == 0, unchanged(S)))


CONTRACTS = [Reset, Delay, Cancel, GetTime]
BOUNDED = bounded("C09")
_SCOPE = ('real task.Clock: every history of up to 5 operations (callLater / cancel / reset / delay / advance, dyadic times, mods aimed at run and cancelled calls too) with up to 3 calls, nested scripts (calls that schedule, cancel, reset, delay from inside a running call) and seeded random histories of up to 40 operations nested 4 deep; oracle: an observer written from the property statement (exactly once, first reaching advance, nondecreasing time, creation order on ties, getDelayedCalls = pending set)')
NOTES = dict(explanation="DelayedCall.reset / delay / cancel / getTime proved over every state and real argument; Clock histories bounded: " + _SCOPE,
             not_covered=["Clock.advance / callLater / _sortCalls as deductive contracts (list.sort with a key and call-outs "
                          "that mutate the list: bounded tier only)", "floating point rounding (times are reals)"])
MANIFEST = dict(
    category="proof",
    text="DelayedCall.reset, delay (with activate_delay), cancel and getTime -- the rescheduling protocol task.Clock and the "
         "reactor share -- are loop free and are executed symbolically over every state (cancelled / called flags, arbitrary "
         "real time, delayed_time >= 0, clock reading and argument): reset(s) leaves getTime() == now + s, delay(s) adds s, the "
         "stored key never increases, the resetter is called (once) whenever the key decreased, delayed_time "
         "stays >= 0, cancel() calls the canceller exactly once and drops func/args/kw, and a cancelled (called) call "
         "raises AlreadyCancelled (AlreadyCalled) and changes nothing.  Clock.advance's ordering and exactly-once behaviour "
         "over whole histories is exercised in the bounded tier only: " + _SCOPE + ".",
    note="Trusted: pyvc, SMT solvers, floats treated as reals, the canceller / resetter / seconds collaborators as opaque "
         "call-outs.  Clock.advance: bounded, never counted as proved.",
    technique="contract-based deductive verification (exhaustive symbolic execution of loop-free methods over reals, SMT) + bounded exhaustive histories",
)
