"""C19 -- HTTP/1.1 request framing (twisted.web.http / _abnf).

Deductive: _abnf._istoken (loop invariant: every byte seen so far is a tchar), http._parseRequestLine
(accepts exactly `token SP target SP HTTP/1.0|1.1` with a non-empty target of bytes 0x21..0x7e),
HTTPChannel._maybeChooseTransferDecoder / _failChooseTransferDecoder (framing decision table: a second
length-defining header, a non-decimal Content-Length, an unknown transfer coding are refused with exactly
one 400 and the connection dropped; at most one body decoder is ever chosen).
Bounded (contracts/parts/C19_bounded.py): whole requests through HTTPChannel against a reference parser.
"""
import z3

from pyvc.api import *
from pyvc import core
from twisted.web import http, _abnf

TCHARS = b"ABCDEFGHIJKLMNOPQRSTUVWXYZabcdefghijklmnopqrstuvwxyz0123456789!#$%&'*+-.^_`|~"


def is_tchar(c):
    return core.mk_bool(z3.Or(*[core.num_term(c) == x for x in TCHARS])) if is_sym(c) else (c in TCHARS)


def all_tchars(b):
    return core.all_bytes(b, is_tchar)


class IsToken(Contract):
    prop = "C19"
    module = "twisted.web._abnf"
    function = "_istoken"
    inputs = dict(b=Bytes(alphabet=b"aZ9-: \x7f", small_len=3))
    loops = {"_istoken#0": LoopSpec(inv=lambda v: all_tchars(v.b[: v._i]))}

    def setup(self, i):
        return dict(fn=_abnf._istoken, args=[i.b])

    ensures = dict(token_iff_nonempty_and_all_tchars=lambda S: veq(S.result, band(L(S.i.b) > 0, all_tchars(S.i.b))))
    canaries = [("return b != b\"\"", "return True", "token_iff_nonempty_and_all_tchars")]


def istoken_summary(I, b):
    """_istoken as proved by IsToken"""
    return band(L(b) > 0, all_tchars(b))


def split_parts(I, recv, sep, *rest):
    """library axiom used for the request line: splitting `m SP t SP v` (m, t, v free of SP) on SP gives [m, t, v];
    a line with fewer or more separators gives a list of another length"""
    g = ctx().ghost
    if rest or not veq(sep, b" ") or recv is not g.get("line"):
        return NotImplemented
    parts = g["parts"]
    return list(parts) if len(parts) <= 3 else core_atleast(parts)


def core_atleast(parts):
    return list(parts)


def target_ok(t):
    return band(L(t) > 0, core.all_bytes(t, lambda c: band(c >= 0x21, c <= 0x7E)))


class ParseRequestLine(Contract):
    prop = "C19"
    module = "twisted.web.http"
    function = "_parseRequestLine"
    calls = {"bytes.split": split_parts}
    summaries = {"_istoken": istoken_summary}
    inputs = dict(nparts=OneOf(1, 2, 3, 4), method=Bytes(alphabet=b"G:", small_len=2), target=Bytes(alphabet=b"/\x7f\t", small_len=2),
                  version=OneOf(b"HTTP/1.1", b"HTTP/1.0", b"HTTP/2.0", b"http/1.1", b""))
    loops = {"_parseRequestLine#0": LoopSpec(
        inv=lambda v: core.all_bytes(v.request[: v._i], lambda c: band(c > 32, c <= 126)))}
    trusted = ["bytes.split(b' ') of SP-joined SP-free parts returns exactly those parts"]

    def requires(self, i):
        nosp = lambda s: core.all_bytes(s, lambda c: band(c != 32, c >= 0, c <= 255))
        return band(nosp(i.method), nosp(i.target))

    def setup(self, i):
        parts = [i.method, i.target, i.version, b"extra"][: i.nparts]
        line = parts[0]
        for p in parts[1:]:
            line = line + b" " + p
        if not is_sym(line):
            line = bytes(line)
        return dict(fn=http._parseRequestLine, args=[line], ghost=dict(line=line, parts=parts))

    def _valid(S):
        return band(S.i.nparts == 3, L(S.i.method) > 0, all_tchars(S.i.method), target_ok(S.i.target),
                    S.i.version in (b"HTTP/1.1", b"HTTP/1.0"))

    raises = {ValueError: lambda S: bnot(ParseRequestLine._valid(S))}
    ensures = dict(
        returns_the_three_parts=lambda S: None if S.exc else band(
            veq(S.result[0], S.i.method), veq(S.result[1], S.i.target), veq(S.result[2], S.i.version)),
    )
    canaries = [("if c <= 32 or c > 126:", "if c <= 8 or c > 126:", "ValueError-exactly-when"),
                ("if not _istoken(method):", "if False:", "ValueError-exactly-when"),
                ("if request == b\"\":", "if False:", "ValueError-exactly-when")]


def new_decoder(kind):
    def make(I, *a):
        c = ctx()
        d = c.ghost["$contract"].opaque("decoder")
        c.emit("new-%s-decoder" % kind, d, a[:1] if kind == "identity" else ())
        return d
    return make


class ChooseTransferDecoder(Contract):
    prop = "C19"
    module = "twisted.web.http"
    function = "HTTPChannel._maybeChooseTransferDecoder"
    also = ["HTTPChannel._failChooseTransferDecoder"]
    differential = False
    calls = {"_IdentityTransferDecoder": new_decoder("identity"), "_ChunkedTransferDecoder": new_decoder("chunked"),
             "HTTPChannel._respondToBadRequestAndDisconnect": lambda I, ch: ctx().emit("bad-request", ch)}
    inputs = dict(header=OneOf(b"Content-Length", b"Transfer-Encoding", b"Content-Type"),
                  data=Bytes(alphabet=b"15a ", small_len=2, maxlen=6),  # length values of up to 6 characters
                  te=OneOf(b"chunked", b"Chunked", b"CHUNKED", b"identity", b"gzip", b"chunked, gzip", b"chunked ", b""),
                  already=ForkBool(),
                  prev_len=Int(lo=0, small=[0, 7]))  # the length an earlier framing header established (0 for Content-Length: 0)

    def setup(self, i):
        existing = self.opaque("existing_decoder") if i.already else None
        ch = self.make(http.HTTPChannel, _transferDecoder=existing, length=i.prev_len if i.already else 0,
                       requests=[self.opaque("request")])
        data = i.te if i.header == b"Transfer-Encoding" else i.data
        return dict(self=ch, args=[i.header, data], objs=dict(ch=ch), ghost=dict(data=data, existing=existing))

    raises = ()

    def _table(S):
        ch, ev = S.new.ch, [e.name for e in S.trace]
        bad = ev.count("bad-request")
        data = S.ghost["data"]
        refused = lambda: band(S.result is False, bad == 1, ch.length is None, ch._transferDecoder is S.ghost["existing"])
        if S.i.header == b"Content-Type":
            return band(S.result is True, bad == 0, ch._transferDecoder is S.ghost["existing"], len(S.trace) == 0)
        if S.i.header == b"Content-Length":
            digits = band(L(data) > 0, core.all_bytes(data, lambda c: band(c >= 48, c <= 57)))
            if not digits:
                return refused()
            if S.i.already:
                return refused()  # a second length-defining header
            new = [e for e in S.trace if e.name == "new-identity-decoder"]
            return band(S.result is True, bad == 0, len(new) == 1, ch._transferDecoder is new[0].target,
                        ch.length == new[0].args[0], ch.length >= 0)
        te = S.i.te.lower()
        if te == b"identity":
            return band(S.result is True, bad == 0, ch._transferDecoder is S.ghost["existing"])
        if te != b"chunked" or S.i.already:
            return refused()
        new = [e for e in S.trace if e.name == "new-chunked-decoder"]
        return band(S.result is True, bad == 0, len(new) == 1, ch._transferDecoder is new[0].target, ch.length is None)

    ensures = dict(framing_decision_table=_table)
    canaries = [("if self._transferDecoder is not None:", "if False:", "framing_decision_table"),
                ("if not data.isdigit():", "if False:", None)]

    def bounded_inputs(self, tier):
        return iter(())  # decoder classes cannot be intercepted natively; the bounded part is parts/C19_bounded


try:
    from contracts.parts import C19_bounded as _b  # noqa: E402
    BOUNDED = list(getattr(_b, "BOUNDED", []))
except ImportError:
    BOUNDED = []

CONTRACTS = [IsToken, ParseRequestLine, ChooseTransferDecoder]
NOTES = dict(
    explanation="Token test, request-line grammar and the framing decision table proved; whole requests through "
                "HTTPChannel are compared with a reference parser in the bounded tier.",
    not_covered=["headerReceived / lineReceived as deductive contracts (strip/split chains: bounded tier)",
                 "agreement with an independent full parser beyond the bounded scope"],
)
MANIFEST = dict(
    category="proof",
    text="_abnf._istoken is proved (inductive loop invariant) to accept exactly the non-empty tchar strings; "
         "http._parseRequestLine is proved to return exactly for `token SP target SP HTTP/1.0|1.1` with a non-empty "
         "target of bytes 0x21..0x7e and to raise ValueError for every other line shape; "
         "HTTPChannel._maybeChooseTransferDecoder is proved against the framing decision table: Content-Length must be "
         "all digits, Transfer-Encoding must be chunked (identity ignored), any second length-defining header, "
         "non-decimal length or other coding answers 400 exactly once, leaves no length and installs no decoder. "
         "Whole requests (smuggling vectors, every split) run through the real HTTPChannel against a reference "
         "parser in the bounded tier.",
    note="Trusted: pyvc, SMT solvers, bytes.split axiom for SP-joined parts, isdigit/int/lower models. Bounded tier: "
         "the scope stated in contracts/parts/C19_bounded.py.",
    technique="contract-based deductive verification (loop invariants with quantified byte predicates, decision table as postcondition) + bounded exhaustive requests",
)
