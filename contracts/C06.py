"""C06 -- DeferredLock / DeferredSemaphore (twisted.internet.defer).

Abstract view: capacity (locked / tokens) and the FIFO `waiting`.  A *grant* is
the call-out d.callback(self).  Proved per method: the object invariant
(free capacity => nobody waits; 0 <= tokens <= limit) holds at entry => at every
grant call-out => at exit; the capacity equation (tokens + holders constant:
each grant takes exactly one unit, each release returns exactly one); grants go
to waiting[0] with the rest of the list intact (FIFO, as soon as capacity is
free); cancelling removes the waiter and changes no capacity.
"""
import z3

from pyvc.api import *
from pyvc import core
from twisted.internet import defer
from twisted.internet.defer import Deferred, DeferredLock, DeferredSemaphore

M = "twisted.internet.defer"


def new_deferred(I, canceller=None):
    c = ctx()
    contract = c.ghost["$contract"]
    o = c.ghost["$objs"]["p"]
    d = contract.fresh_ref("Deferred", None, avoid=[o.waiting])
    c.emit("Deferred()", d, (), {"canceller": canceller})
    return d


def mkd(c, k):
    return c.make(Deferred, called=False, callbacks=[], paused=0, _canceller=None, debug=False, _chainedTo=None, _ident=k)


def grants(S):
    return [e for e in S.trace if e.name == "grant"]


def at_end(S):
    """primitive's state when the method stopped touching it: at the grant call-out if there was one
    (afterwards arbitrary re-entrant code runs), else at exit"""
    g = grants(S)
    return g[-1].snap.p if g else S.new.p


def canceller_ok(S, d, cls):
    if isinstance(d, core.SRef):
        ev = [e for e in S.trace if e.name == "Deferred()"]
        canc = ev[0].kwargs.get("canceller") if ev else None
        return len(ev) == 1 and getattr(canc, "name", None) == "_cancelAcquire" and getattr(canc, "recv", None) is S.new.p
    return isinstance(d, Deferred) and getattr(d._canceller, "__func__", None) is cls._cancelAcquire


# ---------------------------------------------------------------------------------- lock


class LockBase(Contract):
    replay_decides = False  # the granted callback is a havoc'ing call-out (re-entrant application code): not an input
    prop = "C06"
    module = M
    differential = False
    patch_classes = (Deferred,)
    calls = {"Deferred.callback": callout("grant", havoc=[("p", "waiting"), ("p", "locked")]),
             "Deferred": new_deferred}
    inputs = dict(waiting=RefList("Deferred"), locked=ForkBool())

    def invariant(self, o):
        return implies(bnot(o.p.locked), L(o.p.waiting) == 0)

    def mk(self, i):
        return self.make(DeferredLock, waiting=self.reflist(i.waiting, lambda k: mkd(self, k)), locked=i.locked)


class LockAcquire(LockBase):
    function = "DeferredLock.acquire"

    def setup(self, i):
        p = self.mk(i)
        return dict(self=p, args=[], objs=dict(p=p))

    def _free(S):
        if S.old.p.locked:
            return None
        g = grants(S)
        if len(g) != 1:
            return False
        return band(veq(g[0].target, S.result), len(g[0].args) == 1, g[0].args[0] is S.new.p,
                    g[0].snap.p.locked is True, L(g[0].snap.p.waiting) == 0)

    def _busy(S):
        if not S.old.p.locked:
            return None
        return band(len(grants(S)) == 0, S.new.p.locked is True, veq(S.new.p.waiting, S.old.p.waiting + [S.result]))

    ensures = dict(
        granted_at_once_when_free=_free,
        queued_at_tail_when_held=_busy,
        returns_deferred_with_canceller=lambda S: canceller_ok(S, S.result, DeferredLock),
    )
    raises = ()
    canaries = [("self.waiting.append(d)", "self.waiting.insert(0, d)", None)]


class LockRelease(LockBase):
    function = "DeferredLock.release"

    def setup(self, i):
        p = self.mk(i)
        return dict(self=p, args=[], objs=dict(p=p))

    raises = {AssertionError: lambda S: bnot(S.old.p.locked)}

    def _handover(S):
        if S.exc is not None or not (L(S.old.p.waiting) > 0):
            return None
        g = grants(S)
        if len(g) != 1:
            return False
        return band(veq(g[0].target, S.old.p.waiting[0]), g[0].args[0] is S.new.p, g[0].snap.p.locked is True,
                    veq(g[0].snap.p.waiting, S.old.p.waiting[1:]))

    def _freed(S):
        if S.exc is not None or L(S.old.p.waiting) > 0:
            return None
        return band(len(grants(S)) == 0, S.new.p.locked is False, L(S.new.p.waiting) == 0)

    ensures = dict(oldest_waiter_granted=_handover, freed_when_nobody_waits=_freed,
                   nothing_written_after_the_grant=lambda S: unchanged_since_last_callout(S, "p", ("locked", "waiting")))
    canaries = [("d = self.waiting.pop(0)", "d = self.waiting.pop()", "oldest_waiter_granted"),
                ("self.locked = True", "self.locked = False", "oldest_waiter_granted")]


class CancelBase:
    inputs = dict(waiting=RefList("Deferred", small=((1,), (1, 2), (1, 2, 3))), k=Int(lo=0, small=[0, 1, 2]))

    def requires(self, i):
        return i.k < L(i.waiting)

    raises = ()

    def _removed(S):
        k = S.i.k
        w0, w1 = S.old.p.waiting, S.new.p.waiting
        gone = None if isinstance(w1, core.SList) else all(x is not S.ghost["d"] for x in w1)
        r = band(veq(w1, w0[:k] + w0[k + 1:]), len(S.trace) == 0)
        return r if gone is None else band(r, gone)


class LockCancel(CancelBase, LockBase):
    function = "DeferredLock._cancelAcquire"
    inputs = dict(CancelBase.inputs, locked=Const(True))

    def setup(self, i):
        p = self.mk(i)
        d = p.waiting[i.k]
        return dict(self=p, args=[d], objs=dict(p=p), ghost=dict(d=d))

    ensures = dict(waiter_removed=CancelBase._removed, capacity_unchanged=lambda S: S.new.p.locked is True)
    canaries = [("self.waiting.remove(d)", "self.waiting.pop(0)", "waiter_removed")]


# ------------------------------------------------------------------------------- semaphore


class SemBase(Contract):
    replay_decides = False  # the granted callback is a havoc'ing call-out (re-entrant application code): not an input
    prop = "C06"
    module = M
    differential = False
    patch_classes = (Deferred,)
    calls = {"Deferred.callback": callout("grant", havoc=[("p", "waiting"), ("p", "tokens")]),
             "Deferred": new_deferred}
    inputs = dict(waiting=RefList("Deferred"), tokens=Int(small=[0, 1, 2]), limit=Int(small=[1, 2]))

    def invariant(self, o):
        return band(o.p.limit >= 1, o.p.tokens >= 0, o.p.tokens <= o.p.limit,
                    implies(o.p.tokens > 0, L(o.p.waiting) == 0))

    def mk(self, i):
        return self.make(DeferredSemaphore, waiting=self.reflist(i.waiting, lambda k: mkd(self, k)),
                         tokens=i.tokens, limit=i.limit)


class SemAcquire(SemBase):
    function = "DeferredSemaphore.acquire"

    def setup(self, i):
        p = self.mk(i)
        return dict(self=p, args=[], objs=dict(p=p))

    raises = ()

    def _free(S):
        if not (S.old.p.tokens > 0):
            return None
        g = grants(S)
        if len(g) != 1:
            return False
        return band(veq(g[0].target, S.result), g[0].args[0] is S.new.p,
                    g[0].snap.p.tokens == S.old.p.tokens - 1, L(g[0].snap.p.waiting) == 0)

    def _busy(S):
        if S.old.p.tokens > 0:
            return None
        return band(len(grants(S)) == 0, S.new.p.tokens == 0, veq(S.new.p.waiting, S.old.p.waiting + [S.result]))

    ensures = dict(
        granted_at_once_when_tokens=_free,
        queued_at_tail_when_exhausted=_busy,
        capacity_equation=lambda S: at_end(S).tokens + len(grants(S)) == S.old.p.tokens,
        limit_unchanged=lambda S: S.new.p.limit == S.old.p.limit,
        returns_deferred_with_canceller=lambda S: canceller_ok(S, S.result, DeferredSemaphore),
    )
    canaries = [("self.tokens = self.tokens - 1\n            d.callback(self)", "d.callback(self)", "capacity_equation")]


class SemRelease(SemBase):
    function = "DeferredSemaphore.release"

    def setup(self, i):
        p = self.mk(i)
        return dict(self=p, args=[], objs=dict(p=p))

    raises = {AssertionError: lambda S: S.old.p.tokens >= S.old.p.limit}

    def _handover(S):
        if S.exc is not None or not (L(S.old.p.waiting) > 0):
            return None
        g = grants(S)
        if len(g) != 1:
            return False
        return band(veq(g[0].target, S.old.p.waiting[0]), g[0].args[0] is S.new.p,
                    veq(g[0].snap.p.waiting, S.old.p.waiting[1:]))

    ensures = dict(
        oldest_waiter_granted=_handover,
        # one unit comes back: it either becomes a token or goes to exactly one waiter
        capacity_equation=lambda S: None if S.exc else at_end(S).tokens + len(grants(S)) == S.old.p.tokens + 1,
        token_returned_when_nobody_waits=lambda S: None if (S.exc or L(S.old.p.waiting) > 0) else band(
            len(grants(S)) == 0, S.new.p.tokens == S.old.p.tokens + 1),
        limit_unchanged=lambda S: S.new.p.limit == S.old.p.limit,
        # granting a waiter runs application code that may acquire / release again: release() must have done all of its
        # own bookkeeping before, and write nothing afterwards (seeded change C06-3: a token count stored after the grant)
        nothing_written_after_the_grant=lambda S: None if not (S.ghost.get("$after_callout")) else band(
            S.new.p.tokens == S.ghost["$after_callout"][-1][1].p.tokens,
            veq(S.new.p.waiting, S.ghost["$after_callout"][-1][1].p.waiting)),
    )
    canaries = [("            self.tokens = self.tokens - 1\n            d = self.waiting.pop(0)", "            d = self.waiting.pop(0)", "capacity_equation"),
                ("        self.tokens = self.tokens + 1\n        if self.waiting:\n            # someone is waiting to acquire token\n            self.tokens = self.tokens - 1\n            d = self.waiting.pop(0)\n            d.callback(self)",
                 "        tokens = self.tokens + 1\n        if self.waiting:\n            tokens = tokens - 1\n            d = self.waiting.pop(0)\n            d.callback(self)\n        self.tokens = tokens",
                 "nothing_written_after_the_grant"),
                ("d = self.waiting.pop(0)", "d = self.waiting.pop()", "oldest_waiter_granted")]


class SemCancel(CancelBase, SemBase):
    function = "DeferredSemaphore._cancelAcquire"
    inputs = dict(CancelBase.inputs, tokens=Const(0), limit=Int(lo=1, small=[1, 2]))

    def setup(self, i):
        p = self.mk(i)
        d = p.waiting[i.k]
        return dict(self=p, args=[d], objs=dict(p=p), ghost=dict(d=d))

    ensures = dict(waiter_removed=CancelBase._removed,
                   capacity_unchanged=lambda S: band(S.new.p.tokens == 0, S.new.p.limit == S.old.p.limit))


class SemInit(Contract):
    prop = "C06"
    module = M
    function = "DeferredSemaphore.__init__"
    inputs = dict(tokens=Int(small=[-1, 0, 1, 3]))

    def setup(self, i):
        return dict(fn=DeferredSemaphore, args=[i.tokens])

    raises = {ValueError: lambda S: S.i.tokens < 1}
    ensures = dict(
        all_capacity_free=lambda S: None if S.exc else band(S.result.tokens == S.i.tokens, S.result.limit == S.i.tokens,
                                                            L(S.result.waiting) == 0),
    )


# ---------------------------------------------------------------------------- run(): bounded


class RunReleases(Bounded):
    prop = "C06"
    title = "run(f) releases exactly once after f's outcome (value, exception, Deferred fired later, cancelled wait)"
    scope = ("lock and semaphore(1..2); 1..4 run() calls whose functions return a value / raise / return a Deferred "
             "fired or failed later in any order; optional cancellation of a still-waiting run; exhaustive")
    functions = ["_ConcurrencyPrimitive.run", "_ConcurrencyPrimitive._releaseAndReturn", "DeferredLock.acquire",
                 "DeferredLock.release", "DeferredSemaphore.acquire", "DeferredSemaphore.release"]

    def cases(self, tier, rng):
        import itertools
        kinds = ["value", "raise", "later-ok", "later-fail"]
        for prim in ("lock", "sem1", "sem2"):
            for n in (1, 2, 3) if tier == "quick" else (1, 2, 3, 4):
                for ks in itertools.product(kinds, repeat=n):
                    later = [k for k, x in enumerate(ks) if x.startswith("later")]
                    orders = list(itertools.permutations(later)) if len(later) <= 3 else [tuple(later)]
                    for order in orders:
                        for cancel in [None] + list(range(n)):
                            yield (prim, ks, order, cancel)

    def check(self, case):
        prim, ks, order, cancel = case
        p = DeferredLock() if prim == "lock" else DeferredSemaphore(1 if prim == "sem1" else 2)
        cap = 1 if prim in ("lock", "sem1") else 2
        running = []
        started = []
        maxrun = [0]
        pend = {}
        results = {}

        def mk(k, kind):
            def f():
                started.append(k)
                running.append(k)
                maxrun[0] = max(maxrun[0], len(running))
                if len(running) > cap:
                    raise AssertionError("capacity exceeded")
                if kind == "value":
                    running.remove(k)
                    return k
                if kind == "raise":
                    running.remove(k)
                    raise RuntimeError(k)
                d = Deferred()
                d.addBoth(lambda r: (running.remove(k), r)[1])
                pend[k] = d
                return d
            return f

        outs = []
        for k, kind in enumerate(ks):
            d = p.run(mk(k, kind))
            d.addBoth(lambda r, k=k: results.__setitem__(k, r))
            outs.append(d)
        cancelled = None
        if cancel is not None and cancel not in started:
            outs[cancel].cancel()
            cancelled = cancel
        for k in order:
            while k not in pend and any(j in pend and not pend[j].called for j in pend):
                # fire earlier pending ones in the given order only; if k never started yet, break below
                break
            if k in pend and not pend[k].called:
                (pend[k].callback if ks[k] == "later-ok" else pend[k].errback)(k if ks[k] == "later-ok" else RuntimeError(k))
        # fire whatever became pending afterwards (functions that started once capacity was free)
        for _ in range(len(ks) + 1):
            for k, d in list(pend.items()):
                if not d.called:
                    (d.callback if ks[k] == "later-ok" else d.errback)(k if ks[k] == "later-ok" else RuntimeError(k))
        want_started = [k for k in range(len(ks)) if k != cancelled]
        if started != want_started:
            return "functions started %r, expected FIFO order %r" % (started, want_started)
        if maxrun[0] > cap:
            return "ran %d at once with capacity %d" % (maxrun[0], cap)
        if running:
            return "still running %r" % running
        free = (not p.locked) if prim == "lock" else (p.tokens == p.limit)
        if not free or p.waiting:
            return "primitive not free at the end: %r waiting=%r" % (vars(p), p.waiting)
        for k in want_started:
            if k not in results:
                return "run() Deferred %d never fired" % k
        return None


CONTRACTS = [LockAcquire, LockRelease, LockCancel, SemInit, SemAcquire, SemRelease, SemCancel]
BOUNDED = [RunReleases]
NOTES = dict(
    explanation="Lock and semaphore methods proved against the capacity/FIFO view with the invariant at every grant "
                "call-out; run() (closures + Deferred chaining) is bounded.",
    not_covered=["_ConcurrencyPrimitive.run deductively (relies on Deferred.addCallback/addBoth chaining: C01)",
                 "'d not in waiting after cancel' as an SMT obligation (list lemma; bounded tier only)",
                 "liveness (eventually acquired) beyond 'granted in the same release call'"],
    trusted=["Deferred.callback(self) is a call-out to arbitrary re-entrant code", "freshness of new Deferreds"],
)
MANIFEST = dict(
    category="proof",
    text="acquire/release/_cancelAcquire of DeferredLock and DeferredSemaphore (and DeferredSemaphore.__init__) are "
         "proved from source over symbolic state: object invariant at entry, at each grant call-out and at exit; "
         "capacity equation (tokens + grants changes by exactly 0 on acquire and +1 on release); grants go to "
         "waiting[0] with the tail intact and happen in the same call that frees capacity; release/over-release "
         "assertion exactly when; cancellation removes the waiter without changing capacity. run() is exercised by "
         "the bounded tier (all small schedules of sync/raising/late-firing functions with optional cancellation).",
    note="Trusted: pyvc, SMT solvers, rely on Deferred.callback, freshness of new objects, induction over histories "
         "from invariant + per-operation contracts. run(): bounded only.",
    technique="contract-based deductive verification: object invariant at call-outs + per-method contracts (SMT VCs) + bounded exhaustive schedules for run()",
)
