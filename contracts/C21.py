"""C21 -- Pipelined requests are processed one at a time, in order; notifyFinish fires exactly once.

Deductive: HTTPChannel.requestDone and HTTPChannel._finishRequestBody / allContentReceived are loop free.  For an arbitrary
amount of pipelined data buffered while a request was being handled, requestDone is proved to drop exactly the finished
request from the head of the queue (another request is refused with TypeError and nothing changes), and on a persistent
connection to hand the buffered bytes -- all of them, in order, exactly once -- back to the line parser with the buffer
emptied and the "handling" flag cleared, whatever the transport's pause state; on a non-persistent connection it closes
and replays nothing.  allContentReceived marks the channel as handling a request and switches to raw mode *before* the
request is dispatched, so bytes arriving during the call-out are buffered, not parsed.
Bounded (contracts/parts/C21_bounded.py): pipelines through the real channel under every split and event script.
"""
from pyvc.api import *
from pyvc import core
from contracts._parts import bounded
from twisted.web import http

M = "twisted.web.http"


def ev(S, name):
    return [e for e in S.trace if e.name == name]


CALLS = {
    "HTTPChannel.setLineMode": callout("setLineMode"),
    "HTTPChannel.setRawMode": callout("setRawMode"),
    "HTTPChannel.setTimeout": callout("setTimeout"),
    "HTTPChannel.loseConnection": callout("loseConnection"),
}


class RequestDone(Contract):
    prop = "C21"
    module = M
    function = "HTTPChannel.requestDone"
    differential = False
    calls = CALLS
    inputs = dict(buffered=Chunks(), persistent=ForkBool(), waiting=ForkBool(), saved=OneOf(None, 30), mine=ForkBool(),
                  queued=OneOf(1, 2))

    def setup(self, i):
        reqs = [self.opaque("req%d" % k) for k in range(i.queued)]
        other = self.opaque("other")
        ch = self.make(http.HTTPChannel, requests=list(reqs), _waitingForTransport=bool(i.waiting),
                       _networkProducer=self.opaque("producer"), persistent=bool(i.persistent), _handlingRequest=True,
                       _savedTimeOut=i.saved, _dataBuffer=i.buffered)
        return dict(self=ch, args=[reqs[0] if i.mine else other], objs=dict(ch=ch), ghost=dict(reqs=reqs, buffered=i.buffered))

    def bounded_inputs(self, tier):
        return iter(())  # opaque collaborators; the real channel is exercised by the bounded part

    raises = {TypeError: lambda S: bnot(S.i.mine)}

    def _done(S):
        ch, reqs = S.new.ch, S.ghost["reqs"]
        if S.exc is not None:
            return band(len(S.trace) == 0, len(ch.requests) == len(reqs), ch._handlingRequest is True)
        replay, lose, resume = ev(S, "setLineMode"), ev(S, "loseConnection"), ev(S, "producer.resumeProducing")
        head_dropped = band(len(ch.requests) == len(reqs) - 1, *[a is b for a, b in zip(ch.requests, reqs[1:])])
        resumed = len(resume) == (0 if S.i.waiting else 1)
        if not S.i.persistent:
            return band(head_dropped, resumed, len(lose) == 1, len(replay) == 0)
        joined = S.ghost["buffered"]
        joined = joined.joined if isinstance(joined, core.SChunks) else b"".join(joined)
        left = ch._dataBuffer
        emptied = (L(left.joined) == 0) if isinstance(left, core.SChunks) else (len(left) == 0)
        return band(head_dropped, resumed, len(lose) == 0, ch._handlingRequest is False,
                    # every buffered byte goes back to the parser, in order, exactly once
                    len(replay) == 1, veq(replay[0].args[0], joined), emptied,
                    # the replay happens after the flag is cleared (so the next request may start)
                    replay[0].snap.ch._handlingRequest is False)

    ensures = dict(head_request_dropped_and_buffer_replayed_once=_done)
    canaries = [("self._dataBuffer = []", "pass", "head_request_dropped_and_buffer_replayed_once"),
                ("del self.requests[0]", "del self.requests[-1]", "head_request_dropped_and_buffer_replayed_once")]


class AllContentReceived(Contract):
    prop = "C21"
    module = M
    function = "HTTPChannel.allContentReceived"
    differential = False
    calls = dict(CALLS, **{"req.requestReceived": callout("requestReceived")})
    inputs = dict(timeout=OneOf(None, 60))

    def setup(self, i):
        req = self.opaque("req")
        ch = self.make(http.HTTPChannel, requests=[req], _command=b"GET", _path=b"/", _version=b"HTTP/1.1", length=7,
                       _receivedHeaderCount=3, _receivedHeaderSize=40, _transferDecoder=self.opaque("decoder"),
                       timeOut=i.timeout, _handlingRequest=False, _savedTimeOut=None)
        return dict(self=ch, args=[], objs=dict(ch=ch), ghost=dict(ch=ch, req=req))

    def bounded_inputs(self, tier):
        return iter(())

    raises = ()

    def _dispatch(S):
        rr, raw = ev(S, "requestReceived"), ev(S, "setRawMode")
        if len(rr) != 1 or len(raw) != 1:
            return False
        at = rr[0].snap.ch
        return band(rr[0].target is S.ghost["req"], rr[0].args == (b"GET", b"/", b"HTTP/1.1"),
                    # state at the moment the application is called: already "handling", in raw mode, framing state reset
                    at._handlingRequest is True, S.trace.index(raw[0]) < S.trace.index(rr[0]),
                    at._transferDecoder is None, at.length == 0, at._receivedHeaderCount == 0, at._receivedHeaderSize == 0,
                    S.trace[-1] is rr[0])

    ensures = dict(marked_handling_and_raw_before_dispatch=_dispatch)
    canaries = [("self._handlingRequest = True", "self._handlingRequest = False", "marked_handling_and_raw_before_dispatch")]


def notify_model(I, req, reason):
    """Request.connectionLost as a call-out: counted, and it must be the queue's next request with the channel's reason"""
    c = ctx()
    g = c.ghost
    k = g["notified"]
    ok = band(core.veq(req, g["requests"][k]) if hasattr(core, "veq") else True, reason is g["reason"])
    c.oblige("%s/callout/next-queued-request-notified-with-the-reason" % g["$contract"].name, ok, "callout")
    g["notified"] = k + 1
    c.emit("request.connectionLost", req, (reason,))


class ConnectionLost(Contract):
    """every queued request learns of the loss exactly once, whatever else is pending (seeded change C21-2)"""
    prop = "C21"
    module = M
    function = "HTTPChannel.connectionLost"
    differential = False
    calls = dict(CALLS, **{"Request.connectionLost": notify_model})
    inputs = dict(requests=RefList("Request"), aborting=ForkBool(), handling=ForkBool())  # handling: whether a request is with the application (C21-3)
    loops = {"HTTPChannel.connectionLost#0": LoopSpec(inv=lambda v: v.notified == v._i, ghost=("notified",))}

    def setup(self, i):
        abort_call = self.opaque("abortcall") if i.aborting else None
        ch = self.make(http.HTTPChannel, requests=i.requests, _abortingCall=abort_call, _handlingRequest=i.handling)
        reason = self.opaque("reason")
        return dict(self=ch, args=[reason], objs=dict(ch=ch), ghost=dict(notified=0, requests=i.requests, reason=reason))

    def bounded_inputs(self, tier):
        return iter(())

    raises = ()
    ensures = dict(
        every_queued_request_notified_once=lambda S: S.ghost["notified"] == L(S.i.requests),
        pending_abort_cancelled=lambda S: band(S.new.ch._abortingCall is None,
                                                len([e for e in S.trace if e.name == "abortcall.cancel"]) == (1 if S.i.aborting else 0)),
    )
    canaries = [("for request in self.requests:", "for request in self.requests[:1]:", "every_queued_request_notified_once")]


CONTRACTS = [RequestDone, AllContentReceived, ConnectionLost]
BOUNDED = bounded("C21")
_SCOPE = ('the real HTTPChannel / http.Request (bare and under server.Site) on a TCP-like transport double: every 2-way and boundary 3-way split of pipelines of up to 3 requests, every event script of deliver / write / finish / pause / resume / connection loss (loss injected at every event boundary), wire parsed by an independent RFC 7230 response parser')
NOTES = dict(explanation="requestDone / allContentReceived proved for arbitrary buffered pipelined data; whole pipelines bounded: " + _SCOPE,
             not_covered=["Request.finish / notifyFinish / connectionLost as deductive contracts (bounded tier only)",
                          "LineReceiver.dataReceived's buffering while in raw mode (C16 covers the receivers separately)"])
MANIFEST = dict(
    category="proof",
    text="HTTPChannel.requestDone is proved, for any amount of pipelined data buffered during a request, to accept only "
         "the request at the head of the queue (TypeError otherwise, nothing changed), to drop exactly it, to resume the "
         "network producer unless the transport is paused, and on a persistent connection to clear the handling flag and "
         "hand all buffered bytes, in order, exactly once, back to the line parser with the buffer emptied (on a "
         "non-persistent one: close, replay nothing).  HTTPChannel.allContentReceived is proved to set the handling flag, "
         "reset the framing state and switch to raw mode before the request is dispatched to the application.  Whole "
         "pipelines and notifyFinish are exercised in the bounded tier only: " + _SCOPE + ".",
    note="Trusted: pyvc, SMT solvers, setLineMode / setRawMode / setTimeout / loseConnection / producer as call-outs. "
         "Everything else: bounded, never counted as proved.",
    technique="contract-based deductive verification (exhaustive symbolic execution of loop-free methods, call-out traces with state snapshots) + bounded exhaustive pipelines",
)
