"""C21 -- Pipelined requests are processed one at a time, in order; notifyFinish fires exactly once: bounded stand-in (contracts/parts/C21_bounded.py); deductive contracts may be added later."""
from contracts._parts import bounded, EXPLORATION_NOTE

CONTRACTS = []
BOUNDED = bounded("C21")
NOTES = dict(explanation='the real HTTPChannel / http.Request (bare and under server.Site) on a TCP-like transport double: every 2-way and boundary 3-way split of pipelines of up to 3 requests, every event script of deliver / write / finish / pause / resume / connection loss (loss injected at every event boundary), wire parsed by an independent RFC 7230 response parser', not_covered=["deductive contracts on the anchored functions (not built)"])
MANIFEST = dict(
    category="exploration",
    text="Bounded stand-in only, on the real code: " + 'the real HTTPChannel / http.Request (bare and under server.Site) on a TCP-like transport double: every 2-way and boundary 3-way split of pipelines of up to 3 requests, every event script of deliver / write / finish / pause / resume / connection loss (loss injected at every event boundary), wire parsed by an independent RFC 7230 response parser' + ".",
    note=EXPLORATION_NOTE,
    technique="bounded exhaustive evaluation of an executable contract on the real code (stand-in; not proved)",
)
