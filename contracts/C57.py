"""C57 -- Log publisher fan-out, level filter hierarchy, limited history: bounded stand-in (contracts/parts/C57_bounded.py); deductive contracts may be added later."""
from contracts._parts import bounded, EXPLORATION_NOTE

CONTRACTS = []
BOUNDED = [k for k in bounded("C57") if k.__name__ != "PublisherDuplicateConstructorArgs"]  # LogPublisher(o, o): two registrations by construction; not demanded
NOTES = dict(explanation='LogPublisher with raising observers and add/remove scripts, LogLevelFilterPredicate over all small namespace configurations, LimitedHistoryLogObserver event/replay scripts, against reference models written from the statement', not_covered=["deductive contracts on the anchored functions (not built)"])
MANIFEST = dict(
    category="exploration",
    text="Bounded stand-in only, on the real code: " + 'LogPublisher with raising observers and add/remove scripts, LogLevelFilterPredicate over all small namespace configurations, LimitedHistoryLogObserver event/replay scripts, against reference models written from the statement' + ".",
    note=EXPLORATION_NOTE,
    technique="bounded exhaustive evaluation of an executable contract on the real code (stand-in; not proved)",
)
