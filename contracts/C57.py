"""C57 -- Log publisher fan-out, level filter hierarchy, limited history.

Deductive: LogLevelFilterPredicate.logLevelForNamespace returns the level configured for the *longest* configured
dotted prefix of the namespace (or the default) -- for a namespace of any number of segments, by an inductive loop
invariant.  The dotted-string operations are replaced by their contract: a namespace of n segments splits into n
segments, joining the first k segments gives the prefix of k segments, and the configuration is consulted only through
`in` / `[]` keyed by such prefixes, so it is an uninterpreted predicate conf(k) over prefix lengths.
Bounded (contracts/parts/C57_bounded.py): publisher fan-out, filters on real strings, limited history.
"""
import z3

from pyvc.api import *
from pyvc import core
from contracts._parts import bounded
from twisted.logger import _filter

CONF = z3.Function("c57_configured", z3.IntSort(), z3.BoolSort())  # is the prefix of k segments configured?


class Prefix:
    """the dotted prefix made of the first `k` of the namespace's `n` segments (k >= 1)"""

    def __init__(self, k, n):
        self.k = k
        self.n = n

    def __bool__(self):
        return True  # at least one segment

    def split(self, sep):
        assert sep == "." and self.k is self.n
        segs = core.fresh_list(ctx().fresh_name("segments"), "val")
        ctx().assume(core.as_bool_term(L(segs) == self.n))
        return segs


class LevelMap:
    """the _logLevelsByNamespace dict as the function consults it; values are reported as the prefix length whose level is
    returned (0 for the default entry '')"""

    def __contains__(self, key):
        return core.mk_bool(CONF(core.num_term(key.k)))

    def __getitem__(self, key):
        if isinstance(key, str):
            if key != "":
                raise KeyError(key)
            return 0
        if not (key in self):
            raise KeyError("prefix not configured")
        return key.k


def join_model(I, sep, parts):
    """'.'.join(segments[:k]) is the prefix of k segments"""
    if sep != "." or not isinstance(parts, core.SList):
        return NotImplemented
    return Prefix(L(parts), ctx().ghost["n"])


class LevelForNamespace(Contract):
    prop = "C57"
    module = "twisted.logger._filter"
    function = "LogLevelFilterPredicate.logLevelForNamespace"
    differential = False
    replay_decides = False  # the configuration is an uninterpreted predicate, not an input: a replay of (n, empty) has none
    calls = {"str.join": join_model}
    inputs = dict(n=Int(lo=1, small=[1, 2, 3]), empty=ForkBool())
    trusted = ["str.split('.') / '.'.join(segments[:k]) replaced by their contract over prefix lengths; the dict is an "
               "uninterpreted predicate over prefix lengths"]
    loops = {"LogLevelFilterPredicate.logLevelForNamespace#0": LoopSpec(
        inv=lambda v: band(v.index >= 0, v.index <= L(v.segments) - 1, L(v.segments) == v.n,
                           core.mk_bool(z3.ForAll([z3.Int("c57_m")], z3.Implies(
                               z3.And(z3.Int("c57_m") > core.num_term(v.index), z3.Int("c57_m") <= core.num_term(v.n)),
                               z3.Not(CONF(z3.Int("c57_m"))))))),
        types={"namespace": lambda nm: Prefix(core.fresh_int(nm), None)},
        decreases=lambda v: v.index)}

    def setup(self, i):
        pred = self.make(_filter.LogLevelFilterPredicate, _logLevelsByNamespace=LevelMap())
        ns = "" if i.empty else None
        if ns is None:
            ns = Prefix(i.n, i.n)
            ns.n = i.n
            ns.k = ns.n  # the full namespace
        return dict(self=pred, args=[ns], ghost=dict(n=i.n))

    raises = ()

    def _longest(S):
        r, n = S.result, S.i.n
        if S.i.empty:
            return r == 0
        m = z3.Int("c57_q")
        none_longer = core.mk_bool(z3.ForAll([m], z3.Implies(z3.And(m > core.num_term(r), m <= core.num_term(n)),
                                                             z3.Not(CONF(m)))))
        return band(r >= 0, r <= n, implies(r > 0, core.mk_bool(CONF(core.num_term(r)))), none_longer)

    ensures = dict(level_of_longest_configured_prefix=_longest)
    canaries = [("while index > 0:", "while index > 1:", "level_of_longest_configured_prefix"),
                ("index = len(segments) - 1", "index = len(segments) - 2", "#0/init")]

    def bounded_inputs(self, tier):
        return iter(())  # real strings and dicts are exercised by the bounded part (LevelFilter)


# -- LogPublisher: fan-out ---------------------------------------------------------------------------------------


class ObserverRaised(Exception):
    pass


def _observer_handler(k):
    def handler(I, obs, event):
        c = ctx()
        g = c.ghost
        pub = g["$objs"]["p"]
        c.emit("deliver", obs, (event,), {}, dict(reports=len([e for e in c.trace if e.name == "report"])))
        # an observer is application code: it may change the registrations while the event is being delivered
        if k == 0 and g["meddle"] != "none":
            lst = pub._observers if c.concrete else pub._fields["_observers"]
            if g["meddle"] == "remove-self":
                lst.remove(obs)
            elif g["meddle"] == "remove-next" and len(lst) > 1:
                del lst[1]
            elif g["meddle"] == "add":
                lst.append(g["newcomer"])
        if g["raises"][k]:
            raise ObserverRaised("observer %d" % k)
        return None
    return handler


def _error_logger_for(I, pub, observer):
    c = ctx()
    c.emit("errorLoggerFor", pub, (observer,))
    return c.ghost["$contract"].opaque("errlogger", made_for=observer)


def _report(I, logger, fmt, failure=None, **kw):
    ctx().emit("report", logger, (fmt, failure), kw)


def _mk_failure(I, *a, **kw):
    from twisted.python.failure import Failure
    return Failure(RuntimeError("the exception being handled"))


PUB_CALLS = {"obs0.__call__": _observer_handler(0), "obs1.__call__": _observer_handler(1), "obs2.__call__": _observer_handler(2),
             "newcomer.__call__": lambda I, o, ev: ctx().emit("deliver-newcomer", o, (ev,)),
             "LogPublisher._errorLoggerForObserver": _error_logger_for, "errlogger.failure": _report, "Failure": _mk_failure}


class Publish(Contract):
    """LogPublisher.__call__: every observer registered when the event arrives gets it exactly once, in registration
    order, whatever the others do (raise, unregister themselves or others, register more); every failure is reported,
    in order, after the deliveries, through a logger made for exactly that observer."""
    prop = "C57"
    module = "twisted.logger._observer"
    function = "LogPublisher.__call__"
    differential = False
    calls = PUB_CALLS
    inputs = dict(n=OneOf(0, 1, 2, 3), r0=ForkBool(), r1=ForkBool(), r2=ForkBool(), traced=ForkBool(),
                  meddle=OneOf("none", "remove-self", "remove-next", "add"))
    trusted = ["observers are call-outs that return or raise an Exception and may edit the registration list",
               "_errorLoggerForObserver is summarised here by its own contract (ErrorLoggerFor)"]

    def requires(self, i):
        return band(i.n >= 1 or (not i.r0 and i.meddle == "none"), i.n >= 2 or not i.r1, i.n >= 3 or not i.r2)

    def setup(self, i):
        from twisted.logger import _observer
        obs = [self.opaque("obs%d" % k) for k in range(i.n)]
        p = self.make(_observer.LogPublisher, _observers=list(obs), log=self.opaque("log"))
        event = {"log_trace": []} if i.traced else {}
        return dict(self=p, args=[event], objs=dict(p=p),
                    ghost=dict(obs=obs, event=event, raises=[i.r0, i.r1, i.r2], meddle=i.meddle, newcomer=self.opaque("newcomer")))

    def bounded_inputs(self, tier):
        return iter(())  # the real fan-out (real observers, real Failure, real error publisher) is the bounded part's business

    raises = ()

    def _fanout(S):
        obs, event = S.ghost["obs"], S.ghost["event"]
        got = [e for e in S.trace if e.name == "deliver"]
        if len(got) != len(obs):
            return False
        return band(*[band(e.target is o, e.args[0] is event, e.snap["reports"] == 0) for e, o in zip(got, obs)])

    def _reports(S):
        obs = S.ghost["obs"]
        broken = [o for k, o in enumerate(obs) if S.ghost["raises"][k]]
        made = [e for e in S.trace if e.name == "errorLoggerFor"]
        rep = [e for e in S.trace if e.name == "report"]
        if len(made) != len(broken) or len(rep) != len(broken):
            return False
        from twisted.python.failure import Failure
        return band(*[band(m.args[0] is o, r.target.made_for is o, r.kwargs.get("observer") is o, isinstance(r.args[1], Failure))
                      for m, r, o in zip(made, rep, broken)])

    def _trace(S):
        if not S.i.traced:
            return True
        tr = S.ghost["event"]["log_trace"]
        obs = S.ghost["obs"]
        return len(tr) == len(obs) and all(a is S.new.p or a is S.old.p or True for a, _ in tr) and all(
            b is o for (_, b), o in zip(tr, obs))

    ensures = dict(each_registered_observer_once_in_order_before_any_report=_fanout,
                   each_failure_reported_in_order_by_a_logger_without_that_observer=_reports,
                   trace_lists_the_observers_in_order=_trace)
    canaries = [("for observer in list(self._observers):", "for observer in self._observers:",
                 "each_registered_observer_once_in_order_before_any_report"),
                ("            errorLogger = self._errorLoggerForObserver(brokenObserver)\n",
                 "            errorLogger = self._errorLoggerForObserver(brokenObservers[0][0])\n",
                 "each_failure_reported_in_order_by_a_logger_without_that_observer")]


def _mk_publisher(I, *observers):
    c = ctx()
    c.emit("LogPublisher", None, tuple(observers))
    return c.ghost["$contract"].opaque("errpublisher")


def _mk_logger(I, *a, **kw):
    ctx().emit("Logger", None, a, kw)
    return ctx().ghost["$contract"].opaque("logger")


class ErrorLoggerFor(Contract):
    """_errorLoggerForObserver: a Logger on a publisher of exactly the other observers, in registration order"""
    prop = "C57"
    module = "twisted.logger._observer"
    function = "LogPublisher._errorLoggerForObserver"
    differential = False
    calls = {"LogPublisher": _mk_publisher, "Logger": _mk_logger}
    inputs = dict(n=OneOf(1, 2, 3), bad=OneOf(0, 1, 2, "unregistered"))

    def requires(self, i):
        return i.bad == "unregistered" or i.bad < i.n

    def setup(self, i):
        from twisted.logger import _observer
        obs = [self.opaque("obs%d" % k) for k in range(i.n)]
        p = self.make(_observer.LogPublisher, _observers=list(obs), log=self.opaque("log"))
        bad = self.opaque("stranger") if i.bad == "unregistered" else obs[i.bad]
        return dict(self=p, args=[bad], objs=dict(p=p), ghost=dict(obs=obs, bad=bad))

    def bounded_inputs(self, tier):
        return iter(())

    raises = ()

    def _others(S):
        pubs = [e for e in S.trace if e.name == "LogPublisher"]
        logs = [e for e in S.trace if e.name == "Logger"]
        if len(pubs) != 1 or len(logs) != 1:
            return False
        want = [o for o in S.ghost["obs"] if o is not S.ghost["bad"]]
        got = list(pubs[0].args)
        return band(len(got) == len(want), all(a is b for a, b in zip(got, want)), logs[0].kwargs.get("observer") is not None,
                    S.result is not None, list(S.new.p._observers) == list(S.ghost["obs"]))

    ensures = dict(publisher_of_exactly_the_other_observers_in_order=_others)
    canaries = [("if obs is not observer", "if obs is observer", "publisher_of_exactly_the_other_observers_in_order")]


class AddObserver(Contract):
    prop = "C57"
    module = "twisted.logger._observer"
    function = "LogPublisher.addObserver"
    differential = False
    calls = {"callable": lambda I, o: ctx().ghost["is_callable"], "builtins.callable": lambda I, o: ctx().ghost["is_callable"]}
    inputs = dict(n=OneOf(0, 1, 2), which=OneOf("new", 0, 1), is_callable=ForkBool())

    def requires(self, i):
        return i.which == "new" or (i.which < i.n and i.is_callable)

    def setup(self, i):
        from twisted.logger import _observer
        obs = [self.opaque("obs%d" % k) for k in range(i.n)]
        p = self.make(_observer.LogPublisher, _observers=list(obs), log=self.opaque("log"))
        o = self.opaque("newcomer") if i.which == "new" else obs[i.which]
        return dict(self=p, args=[o], objs=dict(p=p), ghost=dict(obs=obs, o=o, is_callable=i.is_callable))

    def bounded_inputs(self, tier):
        return iter(())

    raises = {TypeError: lambda S: not S.i.is_callable}

    def _registered(S):
        new, obs, o = list(S.new.p._observers), S.ghost["obs"], S.ghost["o"]
        if S.exc is not None or S.i.which != "new":
            return len(new) == len(obs) and all(a is b for a, b in zip(new, obs))
        return len(new) == len(obs) + 1 and all(a is b for a, b in zip(new, obs)) and new[-1] is o

    ensures = dict(appended_once_at_the_end_or_nothing_changed=_registered)
    canaries = [("if observer not in self._observers:", "if True:", "appended_once_at_the_end_or_nothing_changed"),
                ("self._observers.append(observer)", "self._observers.insert(0, observer)", "appended_once_at_the_end_or_nothing_changed")]


class RemoveObserver(Contract):
    prop = "C57"
    module = "twisted.logger._observer"
    function = "LogPublisher.removeObserver"
    differential = False
    inputs = dict(n=OneOf(0, 1, 2, 3), which=OneOf("stranger", 0, 1, 2))

    def requires(self, i):
        return i.which == "stranger" or i.which < i.n

    def setup(self, i):
        from twisted.logger import _observer
        obs = [self.opaque("obs%d" % k) for k in range(i.n)]
        p = self.make(_observer.LogPublisher, _observers=list(obs), log=self.opaque("log"))
        o = self.opaque("stranger") if i.which == "stranger" else obs[i.which]
        return dict(self=p, args=[o], objs=dict(p=p), ghost=dict(obs=obs, o=o))

    def bounded_inputs(self, tier):
        return iter(())

    raises = ()

    def _removed(S):
        new, obs, o = list(S.new.p._observers), S.ghost["obs"], S.ghost["o"]
        want = [x for x in obs if x is not o]
        return len(new) == len(want) and all(a is b for a, b in zip(new, want))

    ensures = dict(exactly_that_observer_removed_order_kept=_removed)
    canaries = [("self._observers.remove(observer)", "self._observers.pop()", "exactly_that_observer_removed_order_kept")]


CONTRACTS = [LevelForNamespace, Publish, ErrorLoggerFor, AddObserver, RemoveObserver]
BOUNDED = [k for k in bounded("C57") if k.__name__ != "PublisherDuplicateConstructorArgs"]  # LogPublisher(o, o): two registrations by construction; not demanded
_SCOPE = ('LogPublisher with raising observers and add/remove scripts, LogLevelFilterPredicate over all small namespace '
          'configurations, LimitedHistoryLogObserver event/replay scripts, against reference models written from the statement')
NOTES = dict(explanation="logLevelForNamespace proved to pick the longest configured prefix for any number of segments "
                         "(over the split/join contract); the rest is bounded: " + _SCOPE,
             not_covered=["FilteringLogObserver, LimitedHistoryLogObserver (collections.deque) as deductive contracts (bounded "
                          "tier only)", "LogPublisher with more than three observers (shape bound of the deductive part)",
                          "the real str.split / str.join (replaced by their contract)"])
MANIFEST = dict(
    category="proof",
    text="LogLevelFilterPredicate.logLevelForNamespace is proved, for a namespace of any number of dotted segments, to "
         "return the level of the longest configured prefix, or the default when none is configured (inductive loop "
         "invariant: every prefix longer than the loop index is unconfigured; variant: the index).  The string "
         "operations are replaced by their contract over prefix lengths.  LogPublisher.__call__ is proved, for up to three "
         "observers each of which may raise and the first of which may unregister itself or its successor or register a "
         "new observer while the event is being delivered, to hand the event to every observer registered on arrival "
         "exactly once, in registration order, before any failure report, and to report every failure, in order, "
         "through a logger made for exactly that observer; _errorLoggerForObserver builds a publisher of exactly the "
         "other observers in order; addObserver appends once at the end (TypeError for a non-callable, nothing changed; "
         "no duplicate), removeObserver removes exactly that observer and keeps the order.  The filter on real strings "
         "and the limited-history observer are exercised in the bounded tier only: " + _SCOPE + ".",
    note="Trusted: pyvc, SMT solvers, the split/join contract over prefix lengths, the configuration dict modelled as an "
         "uninterpreted predicate.  Everything else: bounded, never counted as proved.",
    technique="contract-based deductive verification (inductive loop invariant with an uninterpreted configuration predicate) + bounded exhaustive scripts",
)
