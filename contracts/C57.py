"""C57 -- Log publisher fan-out, level filter hierarchy, limited history.

Deductive: LogLevelFilterPredicate.logLevelForNamespace returns the level configured for the *longest* configured
dotted prefix of the namespace (or the default) -- for a namespace of any number of segments, by an inductive loop
invariant.  The dotted-string operations are replaced by their contract: a namespace of n segments splits into n
segments, joining the first k segments gives the prefix of k segments, and the configuration is consulted only through
`in` / `[]` keyed by such prefixes, so it is an uninterpreted predicate conf(k) over prefix lengths.
Bounded (contracts/parts/C57_bounded.py): publisher fan-out, filters on real strings, limited history.
"""
import z3

from pyvc.api import *
from pyvc import core
from contracts._parts import bounded
from twisted.logger import _filter

CONF = z3.Function("c57_configured", z3.IntSort(), z3.BoolSort())  # is the prefix of k segments configured?


class Prefix:
    """the dotted prefix made of the first `k` of the namespace's `n` segments (k >= 1)"""

    def __init__(self, k, n):
        self.k = k
        self.n = n

    def __bool__(self):
        return True  # at least one segment

    def split(self, sep):
        assert sep == "." and self.k is self.n
        segs = core.fresh_list(ctx().fresh_name("segments"), "val")
        ctx().assume(core.as_bool_term(L(segs) == self.n))
        return segs


class LevelMap:
    """the _logLevelsByNamespace dict as the function consults it; values are reported as the prefix length whose level is
    returned (0 for the default entry '')"""

    def __contains__(self, key):
        return core.mk_bool(CONF(core.num_term(key.k)))

    def __getitem__(self, key):
        if isinstance(key, str):
            if key != "":
                raise KeyError(key)
            return 0
        if not (key in self):
            raise KeyError("prefix not configured")
        return key.k


def join_model(I, sep, parts):
    """'.'.join(segments[:k]) is the prefix of k segments"""
    if sep != "." or not isinstance(parts, core.SList):
        return NotImplemented
    return Prefix(L(parts), ctx().ghost["n"])


class LevelForNamespace(Contract):
    prop = "C57"
    module = "twisted.logger._filter"
    function = "LogLevelFilterPredicate.logLevelForNamespace"
    differential = False
    calls = {"str.join": join_model}
    inputs = dict(n=Int(lo=1, small=[1, 2, 3]), empty=ForkBool())
    trusted = ["str.split('.') / '.'.join(segments[:k]) replaced by their contract over prefix lengths; the dict is an "
               "uninterpreted predicate over prefix lengths"]
    loops = {"LogLevelFilterPredicate.logLevelForNamespace#0": LoopSpec(
        inv=lambda v: band(v.index >= 0, v.index <= L(v.segments) - 1, L(v.segments) == v.n,
                           core.mk_bool(z3.ForAll([z3.Int("c57_m")], z3.Implies(
                               z3.And(z3.Int("c57_m") > core.num_term(v.index), z3.Int("c57_m") <= core.num_term(v.n)),
                               z3.Not(CONF(z3.Int("c57_m"))))))),
        types={"namespace": lambda nm: Prefix(core.fresh_int(nm), None)},
        decreases=lambda v: v.index)}

    def setup(self, i):
        pred = self.make(_filter.LogLevelFilterPredicate, _logLevelsByNamespace=LevelMap())
        ns = "" if i.empty else None
        if ns is None:
            ns = Prefix(i.n, i.n)
            ns.n = i.n
            ns.k = ns.n  # the full namespace
        return dict(self=pred, args=[ns], ghost=dict(n=i.n))

    raises = ()

    def _longest(S):
        r, n = S.result, S.i.n
        if S.i.empty:
            return r == 0
        m = z3.Int("c57_q")
        none_longer = core.mk_bool(z3.ForAll([m], z3.Implies(z3.And(m > core.num_term(r), m <= core.num_term(n)),
                                                             z3.Not(CONF(m)))))
        return band(r >= 0, r <= n, implies(r > 0, core.mk_bool(CONF(core.num_term(r)))), none_longer)

    ensures = dict(level_of_longest_configured_prefix=_longest)
    canaries = [("while index > 0:", "while index > 1:", "level_of_longest_configured_prefix"),
                ("index = len(segments) - 1", "index = len(segments) - 2", "#0/init")]

    def bounded_inputs(self, tier):
        return iter(())  # real strings and dicts are exercised by the bounded part (LevelFilter)


CONTRACTS = [LevelForNamespace]
BOUNDED = [k for k in bounded("C57") if k.__name__ != "PublisherDuplicateConstructorArgs"]  # LogPublisher(o, o): two registrations by construction; not demanded
_SCOPE = ('LogPublisher with raising observers and add/remove scripts, LogLevelFilterPredicate over all small namespace '
          'configurations, LimitedHistoryLogObserver event/replay scripts, against reference models written from the statement')
NOTES = dict(explanation="logLevelForNamespace proved to pick the longest configured prefix for any number of segments "
                         "(over the split/join contract); the rest is bounded: " + _SCOPE,
             not_covered=["LogPublisher.__call__ fan-out, FilteringLogObserver, LimitedHistoryLogObserver as deductive "
                          "contracts (bounded tier only)", "the real str.split / str.join (replaced by their contract)"])
MANIFEST = dict(
    category="proof",
    text="LogLevelFilterPredicate.logLevelForNamespace is proved, for a namespace of any number of dotted segments, to "
         "return the level of the longest configured prefix, or the default when none is configured (inductive loop "
         "invariant: every prefix longer than the loop index is unconfigured; variant: the index).  The string "
         "operations are replaced by their contract over prefix lengths.  Publisher fan-out, the filter on real strings "
         "and the limited-history observer are exercised in the bounded tier only: " + _SCOPE + ".",
    note="Trusted: pyvc, SMT solvers, the split/join contract over prefix lengths, the configuration dict modelled as an "
         "uninterpreted predicate.  Everything else: bounded, never counted as proved.",
    technique="contract-based deductive verification (inductive loop invariant with an uninterpreted configuration predicate) + bounded exhaustive scripts",
)
