"""C50 -- Filesystem lock is mutually exclusive even when breaking stale locks: bounded stand-in (contracts/parts/C50_bounded.py)."""
from contracts._parts import bounded, EXPLORATION_NOTE

CONTRACTS = []
BOUNDED = bounded("C50")
_SCOPE = ("the real FilesystemLock.lock / unlock for 2-4 simulated processes with symlink / readlink / rmlink / kill / getpid intercepted, each call-out one atomic step on a ghost world (one link, live pids) holding only the POSIX rules: every interleaving (breadth-first with memoisation) of all script pairs / triples over lock, unlock, die in free / stale / held worlds, and every complete schedule of 2 processes; oracle: at most one live holder, a holder's unlock succeeds and removes its link, a free or stale lock is acquirable by a process running alone, calls terminate")
NOTES = dict(explanation=_SCOPE, not_covered=["deductive contracts on the anchored functions (not built)"])
MANIFEST = dict(
    category="exploration",
    text="Bounded stand-in only, on the real code: " + _SCOPE + ".",
    note=EXPLORATION_NOTE,
    technique="bounded exhaustive evaluation of an executable contract on the real code (stand-in; not proved)",
)
