"""C50 -- Filesystem lock is mutually exclusive even when breaking stale locks.

Deductive (rely/guarantee, one process against an arbitrary environment): FilesystemLock.lock and unlock are executed
symbolically with symlink / readlink / kill / rmlink as environment call-outs that may succeed or fail with any errno --
other processes may do anything between two calls.  Proved for lock(): it returns True only immediately after its own
symlink(str(own pid), name) succeeded (and records locked = True); it removes the link only after, in the same retry, it
read an owner pid from the link and kill(that pid, 0) reported ESRCH; it returns False only after kill found the recorded
owner alive; the retry loop is re-entered only after ENOENT or a successful stale-link removal.  Proved for unlock(): the
link is removed only when it names this process, otherwise ValueError and nothing is touched.
What this cannot give -- the atomicity of "check staleness, then remove" across processes -- is the known finding of the
bounded part (two breakers race); liveness is out of reach of contracts.
Bounded (contracts/parts/C50_bounded.py): every interleaving of 2-4 simulated processes on a ghost link.
"""
import errno

import z3

from pyvc.api import *
from pyvc import core
from contracts._parts import bounded
from twisted.python import lockfile

import os


def mypid():
    """the pid of the process that *uses* the lock during a symbolic run.  It is deliberately not the pid of the process
    that built the FilesystemLock object (setup builds it natively, under the real os.getpid()): the object may have been
    constructed before a fork, so nothing remembered at construction time may stand in for getpid() (seeded change
    C50-1 caches the pid in __init__)."""
    return os.getpid() + 1000003


PIDSTR = "<pid read from the link>"
NAME = "/ghost/lock"


def _choose(tag, options):
    """environment choice among concrete options (one fork per option)"""
    c = ctx()
    for o in options[:-1]:
        if c.decide(z3.Bool(c.fresh_name("%s_%s" % (tag, o)))):
            return o
    return options[-1]


def env_symlink(I, value, name):
    c, g = ctx(), ctx().ghost
    g.update(read=False, esrch=False, alive=False, sym_ok=False)  # a new retry begins
    how = _choose("symlink", ["ok", "EEXIST", "EPERM"])
    c.emit("symlink", None, (value, name, how))
    if how == "ok":
        g["sym_ok"] = True
        return None
    raise OSError(getattr(errno, how), how)


def env_readlink(I, name):
    c, g = ctx(), ctx().ghost
    how = _choose("readlink", ["ok", "ENOENT", "EPERM"])
    c.emit("readlink", None, (name, how))
    if how == "ok":
        g["read"] = True
        return PIDSTR
    raise OSError(getattr(errno, how), how)


def env_kill(I, pid, sig):
    c, g = ctx(), ctx().ghost
    how = _choose("kill", ["alive", "ESRCH", "EPERM"])
    c.emit("kill", None, (pid, sig, how))
    same = veq(pid, g["owner"])
    if how == "alive":
        g["alive"] = bool(same) and g["read"]
        return None
    if how == "ESRCH":
        g["esrch"] = bool(same) and g["read"]
    raise OSError(getattr(errno, how), how)


def env_rmlink(I, name):
    c, g = ctx(), ctx().ghost
    ok = g["esrch"] if g["mode"] == "lock" else g["mine"]
    if c.concrete:
        g.setdefault("bad", []).append("rmlink") if not ok else None
    else:
        c.oblige("%s/callout/link-removed-only-when-allowed" % g["$contract"].name, ok, "callout")
    how = _choose("rmlink", ["ok", "ENOENT", "EPERM"])
    c.emit("rmlink", None, (name, how))
    if how == "ok":
        return None
    raise OSError(getattr(errno, how), how)


def env_int(I, x=0, *a):
    if x is PIDSTR or x == PIDSTR:
        return ctx().ghost["owner"]
    return NotImplemented


CALLS = {"twisted.python.lockfile.symlink": env_symlink, "symlink": env_symlink, "posix.symlink": env_symlink,
         "readlink": env_readlink, "posix.readlink": env_readlink,
         "kill": env_kill, "posix.kill": env_kill,
         "rmlink": env_rmlink, "posix.remove": env_rmlink, "posix.unlink": env_rmlink, "remove": env_rmlink, "unlink": env_rmlink,
         "posix.getpid": lambda I: mypid(), "getpid": lambda I: mypid(),
         "builtins.int": env_int, "int": env_int}


def events(S, name, how=None):
    return [e for e in S.trace if e.name == name and (how is None or e.args[-1] == how)]


class Lock(Contract):
    prop = "C50"
    module = "twisted.python.lockfile"
    function = "FilesystemLock.lock"
    differential = False
    calls = CALLS
    inputs = dict(owner=Int(lo=1, small=[77, 4242]))
    # self.locked / self.clean are assigned only on the path that returns True (never on a path that loops again)
    loops = {"FilesystemLock.lock#0": LoopSpec(inv=lambda v: True, types={"clean": lambda nm: core.fresh_bool(nm)},
                                               frozen=("self.locked", "self.clean"))}
    trusted = ["symlink / readlink / kill / rmlink as an arbitrary environment (any outcome, any errno); POSIX platform",
               "the pid text read from the link parses to some integer (int() contract)"]

    def setup(self, i):
        # built by the real constructor (whatever it chooses to remember), then the documented state
        lk = self.make(lockfile.FilesystemLock, **dict(vars(lockfile.FilesystemLock(NAME)), locked=False, clean=None))
        return dict(self=lk, args=[], objs=dict(lk=lk),
                    ghost=dict(owner=i.owner, mode="lock", read=False, esrch=False, alive=False, sym_ok=False, mine=False))

    def bounded_inputs(self, tier):
        return iter(())

    raises = (OSError,)

    def _acquired(S):
        if S.exc is not None or S.result is not True:
            return None
        sym = events(S, "symlink")
        last = S.trace[-1]
        return band(len(sym) >= 1, last is sym[-1], last.args[2] == "ok", last.args[0] == str(mypid()), last.args[1] == NAME,
                    S.new.lk.locked is True)

    def _refused(S):
        if S.exc is not None or S.result is not False:
            return None
        # refused only after the recorded owner was found alive, and nothing was taken or removed in that retry
        return band(S.ghost["alive"], not S.ghost["sym_ok"], len(events(S, "rmlink")) == 0, S.new.lk.locked is False)

    ensures = dict(true_only_right_after_own_symlink_succeeded=_acquired, false_only_when_the_owner_is_alive=_refused)
    canaries = [("if e.errno == errno.ESRCH:", "if True:", "link-removed-only-when-allowed"),
                ("self.locked = True", "self.locked = False", "true_only_right_after_own_symlink_succeeded")]


class Unlock(Contract):
    prop = "C50"
    module = "twisted.python.lockfile"
    function = "FilesystemLock.unlock"
    differential = False
    calls = CALLS
    inputs = dict(owner=Int(lo=1, small=[77, 4242]))
    trusted = Lock.trusted

    def setup(self, i):
        lk = self.make(lockfile.FilesystemLock, **dict(vars(lockfile.FilesystemLock(NAME)), locked=True, clean=True))
        mine = veq(i.owner, mypid())
        return dict(self=lk, args=[], objs=dict(lk=lk),
                    ghost=dict(owner=i.owner, mode="unlock", read=False, esrch=False, alive=False, sym_ok=False,
                               mine=bool(mine) if not is_sym(mine) else bool(mine)))

    def bounded_inputs(self, tier):
        return iter(())

    raises = (OSError, ValueError)

    def _own_only(S):
        rm = events(S, "rmlink")
        if isinstance(S.exc, ValueError):
            return band(len(rm) == 0, bnot(veq(S.i.owner, mypid())), S.new.lk.locked is True)
        if S.exc is None:
            return band(len(rm) == 1, rm[0].args[1] == "ok", veq(S.i.owner, mypid()), S.new.lk.locked is False)
        return True

    ensures = dict(removes_only_its_own_link=_own_only)
    canaries = [("if int(pid) != os.getpid():", "if False:", "link-removed-only-when-allowed")]


CONTRACTS = [Lock, Unlock]
for _k in CONTRACTS:
    _k.replay_decides = False  # the outcomes of symlink / readlink / kill / rmlink are an arbitrary environment, not inputs
BOUNDED = bounded("C50")
_SCOPE = ("the real FilesystemLock.lock / unlock for 2-4 simulated processes with symlink / readlink / rmlink / kill / getpid intercepted, each call-out one atomic step on a ghost world (one link, live pids) holding only the POSIX rules: every interleaving (breadth-first with memoisation) of all script pairs / triples over lock, unlock, die in free / stale / held worlds, and every complete schedule of 2 processes; oracle: at most one live holder, a holder's unlock succeeds and removes its link, a free or stale lock is acquirable by a process running alone, calls terminate")
NOTES = dict(explanation="lock / unlock proved against an arbitrary environment (per-call guarantees); interleavings bounded: " + _SCOPE,
             not_covered=["atomicity of the stale-lock break across processes (the known finding) and liveness: no contract "
                          "within reach; bounded interleavings only", "Windows branches"])
MANIFEST = dict(
    category="proof",
    text="FilesystemLock.lock and unlock are proved against an arbitrary environment (every filesystem / kill call may succeed or "
         "fail with any errno, other processes may act between calls): lock() returns True only immediately after its own "
         "symlink(str(pid), name) succeeded and sets locked; it removes the link only after, in the same retry, reading an "
         "owner pid and kill(pid, 0) reporting ESRCH; it returns False only after the recorded owner was found alive; "
         "unlock() removes the link only when it names this process, otherwise ValueError and nothing is touched.  \"This "
         "process\" is the one that makes the call, which need not be the one that built the object (the contracts run "
         "the calls under a pid other than the constructing one: nothing remembered before a fork may stand in for "
         "getpid()).  Mutual "
         "exclusion across processes depends on the interleaving of these steps and is exercised in the bounded tier only "
         "(where the stale-break race is the known finding): " + _SCOPE + ".",
    note="Trusted: pyvc, SMT solvers, the environment model of symlink / readlink / kill / rmlink (any outcome), int() contract, "
         "POSIX platform.  Cross-process interleavings: bounded, never counted as proved.",
    technique="contract-based deductive verification (rely/guarantee: symbolic execution against an arbitrary environment, call-out obligations, loop cut) + bounded exhaustive interleavings",
)
