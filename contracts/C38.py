"""C38 -- Telnet application data is transparent: bounded stand-in (contracts/parts/C38_bounded.py); deductive contracts may be added later."""
from contracts._parts import bounded, EXPLORATION_NOTE

CONTRACTS = []
BOUNDED = bounded("C38")
NOTES = dict(explanation='a real TelnetTransport sender and receiver: every grouping of short CR-free byte strings (with IAC, LF, command bytes) into write / writeSequence calls, every 2- and 3-way split of the wire; oracle: RFC 854 (IAC doubled, LF as CR LF, no command seen by the peer, bytes equal)', not_covered=["deductive contracts on the anchored functions (not built)"])
MANIFEST = dict(
    category="exploration",
    text="Bounded stand-in only, on the real code: " + 'a real TelnetTransport sender and receiver: every grouping of short CR-free byte strings (with IAC, LF, command bytes) into write / writeSequence calls, every 2- and 3-way split of the wire; oracle: RFC 854 (IAC doubled, LF as CR LF, no command seen by the peer, bytes equal)' + ".",
    note=EXPLORATION_NOTE,
    technique="bounded exhaustive evaluation of an executable contract on the real code (stand-in; not proved)",
)
