"""C38 -- Telnet carries application bytes transparently.

Deductive, byte by byte (every one of the 256 byte values, symbolically):

  Step         Telnet.dataReceived on one byte in each of the six parser states, against the RFC 854 decoder table: the new
               state, the application bytes handed over, the command / negotiation events -- nothing else;
  EncodedByte  for every application byte b other than CR, the wire form enc(b) (IAC doubled, LF as CR LF, anything else
               itself) delivered from the `data` state, in one call or cut between its two bytes: exactly b reaches the
               application, the parser is back in `data`, no command or negotiation is seen;
  WriteByte    TelnetTransport.write of one application byte puts exactly enc(b) on the wire.
The parser keeps no state between bytes other than `state` (and the pending command / subnegotiation bytes), and
bytes.replace with a one-byte pattern acts on every byte independently, so these per-byte facts compose to the
statement for whole strings and arbitrary segmentation; that composition is explored (bounded tier), not proved.
Bounded (contracts/parts/C38_bounded.py): real sender and receiver, write groupings, every 2- and 3-way wire split.
"""
from pyvc.api import *
from pyvc import core
from contracts._parts import bounded
from twisted.conch import telnet
from twisted.conch.telnet import IAC, SB, SE, WILL, WONT, DO, DONT

M = "twisted.conch.telnet"
CR, LF, NUL = b"\r", b"\n", b"\0"
SIMPLE = (telnet.EOR, telnet.NOP, telnet.DM, telnet.BRK, telnet.IP, telnet.AO, telnet.AYT, telnet.EC, telnet.EL, telnet.GA)
OPTION_COMMANDS = (WILL, WONT, DO, DONT)
STATES = ("data", "escaped", "command", "newline", "subnegotiation", "subnegotiation-escaped")


def ev(S, name):
    return [e for e in S.trace if e.name == name]


def rec(name):
    def h(I, obj, *a, **kw):
        # with the parser's state at the moment the application is called: it may feed more bytes from there
        ctx().emit(name, obj, tuple(list(x) if isinstance(x, list) else x for x in a), kw, {"state": I.getattr(obj, "state")})
    return h


SUMMARIES = {"Telnet.applicationDataReceived": rec("app"), "Telnet.commandReceived": rec("command"), "Telnet.negotiate": rec("negotiate"),
             "TelnetTransport.applicationDataReceived": rec("app")}


def one_of(b, values):
    r = False
    for v in values:
        r = bor(r, veq(b, v))
    return r


def delivered(S):
    """the application bytes handed over, concatenated in order"""
    out = b""
    for e in ev(S, "app"):
        out = out + e.args[0]
    return out


class _Parser(Contract):
    prop = "C38"
    module = M
    differential = False
    canary_budget = 1500  # 256 byte values x 6 states: a canary's refutation can come late on a busy machine
    summaries = SUMMARIES

    def parser(self, state, **extra):
        return self.make(telnet.Telnet, **dict(vars(telnet.Telnet()), state=state, **extra))

    def bounded_inputs(self, tier):
        return iter(())


class Step(_Parser):
    function = "Telnet.dataReceived"
    inputs = dict(b=Bytes(maxlen=1, minlen=1, small_len=1), state=OneOf(*STATES), command=OneOf(*OPTION_COMMANDS), pending=OneOf(0, 1))
    calls = {"iterbytes": lambda I, d: [d[0:1]]}
    trusted = ["iterbytes(data) yields the one-byte slices of data in order (a three-line generator)",
               "applicationDataReceived / commandReceived / negotiate are recorded call-outs"]

    def setup(self, i):
        extra = {}
        if i.state == "command":
            extra["command"] = i.command
        if i.state.startswith("subnegotiation"):
            extra["commands"] = [b"x"][:i.pending]
        t = self.parser(i.state, **extra)
        return dict(self=t, args=[i.b], objs=dict(t=t), ghost=dict(pending=[b"x"][:i.pending]))

    raises = {ValueError: lambda S: band(S.i.state == "escaped",
                                         bnot(one_of(S.i.b, (IAC, SB) + SIMPLE + OPTION_COMMANDS)))}

    def _table(S):
        if S.exc is not None:
            return len(S.trace) == 0
        i, b, t = S.i, S.i.b, S.new.t
        app, cmd, neg = ev(S, "app"), ev(S, "command"), ev(S, "negotiate")
        out = delivered(S)
        truth = S.ghost["$interp"].truth
        st = i.state

        def result(state, data=None, command=None, negotiated=None):
            # data None: nothing is handed to the application by this byte
            ok = band(t.state == state, len(app) == (0 if data is None else 1), True if data is None else veq(out, data))
            ok = band(ok, len(cmd) == (0 if command is None else 1), len(neg) == (0 if negotiated is None else 1))
            if command is not None:
                ok = band(ok, veq(cmd[0].args[0], command[0]), cmd[0].args[1] is None if command[1] is None else veq(cmd[0].args[1], command[1]))
            if negotiated is not None:
                ok = band(ok, len(neg[0].args[0]) == len(negotiated), *[veq(x, y) for x, y in zip(neg[0].args[0], negotiated)])
            return ok

        if st == "data":
            if truth(veq(b, IAC)):
                return result("escaped")
            if truth(veq(b, CR)):
                return result("newline")
            return result("data", b)
        if st == "escaped":
            if truth(veq(b, IAC)):
                return result("data", IAC)
            if truth(veq(b, SB)):
                return band(result("subnegotiation"), t.commands == [])
            if truth(one_of(b, SIMPLE)):
                return result("data", command=(b, None))
            return band(result("command"), veq(t.command, b))
        if st == "command":
            return result("data", command=(i.command, b))
        if st == "newline":
            if truth(veq(b, LF)):
                return result("data", LF)
            if truth(veq(b, NUL)):
                return result("data", CR)
            if truth(veq(b, IAC)):
                return result("escaped", CR)
            return result("data", CR + b)
        pending = S.ghost["pending"]
        if st == "subnegotiation":
            if truth(veq(b, IAC)):
                return band(result("subnegotiation-escaped"), len(t.commands) == len(pending))
            return band(result("subnegotiation"), len(t.commands) == len(pending) + 1, veq(t.commands[-1], b))
        if truth(veq(b, SE)):
            return result("data", negotiated=pending)
        return band(result("subnegotiation"), len(t.commands) == len(pending) + 1, veq(t.commands[-1], b))

    def _settled(S):
        # applicationDataReceived / commandReceived / negotiate are application code that may call dataReceived again
        # (a synchronous peer answering AYT): the parser state must already be the one the table prescribes, or the
        # nested bytes are parsed in the wrong state and the state they leave is overwritten (seeded change C38-3)
        return band(*[e.snap["state"] == S.new.t.state for e in S.trace if e.name in ("app", "command", "negotiate")])

    ensures = dict(rfc854_decoder_table=_table, parser_state_settled_before_the_application_is_called=_settled)
    canaries = [("                    self.state = \"data\"\n                    if appDataBuffer:\n                        self.applicationDataReceived(b\"\".join(appDataBuffer))\n                        del appDataBuffer[:]\n                    self.commandReceived(b, None)",
                 "                    if appDataBuffer:\n                        self.applicationDataReceived(b\"\".join(appDataBuffer))\n                        del appDataBuffer[:]\n                    self.commandReceived(b, None)\n                    self.state = \"data\"",
                 "parser_state_settled_before_the_application_is_called"),
                ("                elif b == b\"\\0\":\n                    appDataBuffer.append(b\"\\r\")", "                elif b == b\"\\0\":\n                    pass", "rfc854_decoder_table"),
                ("                if b == IAC:\n                    appDataBuffer.append(b)\n                    self.state = \"data\"",
                 "                if b == IAC:\n                    self.state = \"data\"", "rfc854_decoder_table")]


def enc(b, truth):
    """wire form of one application byte (not CR)"""
    if truth(veq(b, IAC)):
        return [IAC, IAC]
    if truth(veq(b, LF)):
        return [CR, LF]
    return [b]


class EncodedByte(_Parser):
    function = "Telnet.dataReceived"
    inputs = dict(b=Bytes(maxlen=1, minlen=1, small_len=1), split=ForkBool())
    calls = {"iterbytes": lambda I, d: [d[k:k + 1] for k in range(len(d) if not is_sym(d) else ctx().ghost["n"])]}
    trusted = Step.trusted

    def requires(self, i):
        return bnot(veq(i.b, CR))  # the property speaks of application data without carriage returns

    def setup(self, i):
        t = self.parser("data")
        g = dict(n=1)

        def drive(call):
            truth = ctx().ghost["$interp"].truth
            wire = enc(i.b, truth)
            if i.split and len(wire) == 2:
                for piece in wire:
                    g["n"] = 1
                    ctx().ghost["n"] = 1
                    call(t, "dataReceived", piece)
            else:
                whole = wire[0] if len(wire) == 1 else wire[0] + wire[1]
                ctx().ghost["n"] = len(wire)
                call(t, "dataReceived", whole)
        return dict(drive=drive, objs=dict(t=t), ghost=g)

    raises = ()
    ensures = dict(exactly_the_byte_arrives_and_the_parser_is_back_in_data=lambda S: band(
        veq(delivered(S), S.i.b), S.new.t.state == "data", len(ev(S, "command")) == 0, len(ev(S, "negotiate")) == 0))
    canaries = [("                if b == b\"\\n\":\n                    appDataBuffer.append(b\"\\n\")", "                if b == b\"\\n\":\n                    appDataBuffer.append(b\"\\r\\n\")",
                 "exactly_the_byte_arrives_and_the_parser_is_back_in_data")]


class WriteByte(Contract):
    prop = "C38"
    module = M
    function = "TelnetTransport.write"
    also = ["ProtocolTransportMixin.write"]
    differential = False
    calls = {"wire.write": rec("wire.write")}
    inputs = dict(b=Bytes(maxlen=1, minlen=1, small_len=1))
    trusted = ["the underlying transport is a recorded call-out",
               "bytes.replace on a one-byte value substitutes the byte if it is the pattern (exact for one byte)"]

    def requires(self, i):
        return bnot(veq(i.b, CR))

    def setup(self, i):
        t = self.make(telnet.TelnetTransport, **dict(vars(telnet.TelnetTransport()), transport=self.opaque("wire")))
        return dict(self=t, args=[i.b], objs=dict(t=t))

    def bounded_inputs(self, tier):
        return iter(())

    raises = ()

    def _wire(S):
        w = ev(S, "wire.write")
        if len(w) != 1 or len(S.trace) != 1:
            return False
        truth = S.ghost["$interp"].truth
        parts = enc(S.i.b, truth)
        want = parts[0] if len(parts) == 1 else parts[0] + parts[1]
        return veq(w[0].args[0], want)

    ensures = dict(exactly_the_wire_form_is_written=_wire)
    canaries = [("ProtocolTransportMixin.write(self, data.replace(b\"\\xff\", b\"\\xff\\xff\"))", "ProtocolTransportMixin.write(self, data)", "exactly_the_wire_form_is_written")]


class WriteSequenceByte(WriteByte):
    """writeSequence escapes exactly as write does (seeded change C38-1 and the repaired defect 71ab703)"""
    function = "TelnetTransport.writeSequence"
    also = ["TelnetTransport.write", "ProtocolTransportMixin.write"]
    calls = {"wire.write": rec("wire.write"), "wire.writeSequence": rec("wire.writeSequence")}

    def setup(self, i):
        t = self.make(telnet.TelnetTransport, **dict(vars(telnet.TelnetTransport()), transport=self.opaque("wire")))
        return dict(self=t, args=[[i.b]], objs=dict(t=t))

    def _wire(S):
        w = ev(S, "wire.write") + ev(S, "wire.writeSequence")
        if len(w) != 1 or len(S.trace) != 1:
            return False
        got = w[0].args[0]
        if isinstance(got, (list, tuple)):
            whole = b""
            for p in got:
                whole = whole + p
            got = whole
        truth = S.ghost["$interp"].truth
        parts = enc(S.i.b, truth)
        want = parts[0] if len(parts) == 1 else parts[0] + parts[1]
        return veq(got, want)

    ensures = dict(exactly_the_wire_form_is_written=_wire)
    canaries = [("self.write(b\"\".join(seq))", "self.transport.writeSequence(seq)", "exactly_the_wire_form_is_written")]


CONTRACTS = [Step, EncodedByte, WriteByte, WriteSequenceByte]
BOUNDED = bounded("C38")
_SCOPE = ('a real TelnetTransport sender and receiver: every grouping of short CR-free byte strings (with IAC, LF, command bytes) into write / writeSequence calls, every 2- and 3-way split of the wire; oracle: RFC 854 (IAC doubled, LF as CR LF, no command seen by the peer, bytes equal)')
NOTES = dict(explanation="decoder step, wire form of every byte and the writer proved byte by byte for all 256 values; strings and segmentations bounded: " + _SCOPE,
             not_covered=["the composition of the per-byte facts over whole strings (the parser loop keeps only `state` between bytes; "
                          "bytes.replace with a one-byte pattern is bytewise): explored in the bounded tier, not proved",
                          "writeSequence (joins and calls write), subnegotiation payloads, application data containing CR"])
MANIFEST = dict(
    category="proof",
    text="For every byte value: Telnet.dataReceived on one byte agrees with the RFC 854 decoder table in each of its six states "
         "(new state, application bytes, command / negotiation events, ValueError exactly for an unknown command byte), and the "
         "parser state is already the final one whenever the application is called (it may feed more bytes from there); the "
         "wire form of every application byte other than CR (IAC doubled, LF as CR LF) delivered from the data state, whole or "
         "cut between its two bytes, hands exactly that byte to the application, returns to the data state and triggers no "
         "command; TelnetTransport.write of one byte puts exactly that wire form on the transport.  That these per-byte facts "
         "compose over whole strings, write groupings and segmentations is exercised in the bounded tier only: " + _SCOPE + ".",
    note="Trusted: pyvc, SMT solvers, iterbytes, call-outs.  Everything else: bounded, never counted as proved.",
    technique="contract-based deductive verification (complete symbolic case analysis per byte and parser state, SMT) + bounded exhaustive strings and wire splits",
)
