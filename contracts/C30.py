"""C30 -- AMP wire format (twisted.protocols.amp).

Deductive: AmpBox.serialize against the wire grammar (concat of len16(key) key len16(value) value, then 00 00)
with its refusals (key > 255, value > 65535, empty key: an empty key is the terminator), and the
BinaryBoxProtocol key/value step methods on top of the Int16StringReceiver contract of C16 (proved there:
the strings handed to stringReceived are exactly the frames of the stream).  Round trip as a lemma over the
two: the frames of serialize({k: v}) are [k, v, ""], and the steps rebuild {k: v} and deliver it once.
Bounded (contracts/parts/C30_bounded.py): boxes through the real protocol under every split, limits,
refusals, argument codecs.
"""
from pyvc.api import *
from pyvc import core, models
from contracts._parts import bounded
from twisted.protocols import amp

M = "twisted.protocols.amp"


def len16(s):
    n = L(s)
    if not is_sym(n):
        return bytes([n // 256, n % 256])
    return core._seq_value(core.z3.Concat(core.z3.Unit(core.num_term(n) / 256), core.z3.Unit(core.num_term(n) % 256)), "bytes")


class Serialize(Contract):
    prop = "C30"
    module = M
    function = "AmpBox.serialize"
    calls = {"sorted": lambda I, items: list(items)}  # the order of the pairs is not part of the wire grammar
    differential = False
    inputs = dict(npairs=OneOf(0, 1, 2), k1=Bytes(alphabet=b"a\x00", small_len=2), v1=Bytes(alphabet=b"v\x00", small_len=2),
                  k2=Bytes(alphabet=b"b", small_len=1, minlen=1), v2=Bytes(alphabet=b"w", small_len=1))
    trusted = ["struct.pack('!H', n): two big-endian bytes, struct.error outside 0..65535",
               "sorted() only permutes the pairs (their order is not part of the wire grammar)"]

    def requires(self, i):
        if i.npairs == 2:
            return band(L(i.k2) >= 1, L(i.k2) <= 255, L(i.v2) <= 65535, bnot(veq(i.k1, i.k2)))
        return True

    def setup(self, i):
        pairs = [(i.k1, i.v1), (i.k2, i.v2)][: i.npairs]
        box = amp.AmpBox()
        for k, v in pairs:
            dict.__setitem__(box, k, v)
        return dict(self=box, args=[], ghost=dict(pairs=pairs))

    def _refused(S):
        if S.i.npairs == 0:
            return False
        return bor(L(S.i.k1) == 0, L(S.i.k1) > 255, L(S.i.v1) > 65535)

    raises = {amp.TooLong: lambda S: band(S.i.npairs >= 1, L(S.i.k1) >= 1, bor(L(S.i.k1) > 255, L(S.i.v1) > 65535)),
              ValueError: lambda S: band(S.i.npairs >= 1, L(S.i.k1) == 0)}

    def _wire(S):
        if S.exc is not None:
            return None
        out = b""
        for k, v in S.ghost["pairs"]:
            out = out + len16(k) + k + len16(v) + v
        return veq(S.result, out + b"\x00\x00")

    ensures = dict(wire_grammar=_wire)
    canaries = [('w(pack("!H", len(kv)))', 'w(pack("!H", len(kv) + 1))', "wire_grammar"),
                ("if len(k) == 0:", "if False:", "ValueError-exactly-when"),
                ("if len(k) > MAX_KEY_LENGTH:", "if len(k) > MAX_KEY_LENGTH + 1:", "TooLong-exactly-when")]

    def bounded_inputs(self, tier):
        for n in (0, 1, 2):
            for k1 in (b"", b"a", b"\x00", b"a" * 255, b"a" * 256):
                for v1 in (b"", b"v", b"v" * 65535, b"v" * 65536):
                    yield dict(npairs=n, k1=k1, v1=v1, k2=b"b", v2=b"w")


class BoxModel(models.SDict):
    """the box being assembled by the parser: an association list (keys may be symbolic)"""

    def __init__(self):
        self.pairs = []

    def set(self, k, v):
        self.pairs.append((k, v))

    def nonempty(self):
        return bool(self.pairs)


class ParserSteps(Contract):
    """frames [k, v, b''] (what Int16StringReceiver delivers for serialize({k: v})) rebuild {k: v} once."""
    prop = "C30"
    module = M
    function = "BinaryBoxProtocol.proto_key"
    also = ["BinaryBoxProtocol.proto_init", "BinaryBoxProtocol.proto_value"]
    calls = {"AmpBox": lambda I: BoxModel()}
    differential = False
    inputs = dict(k=Bytes(alphabet=b"k\x00", small_len=2, minlen=1), v=Bytes(alphabet=b"v", small_len=2))

    def requires(self, i):
        return L(i.k) >= 1

    def setup(self, i):
        rcv = self.opaque("boxReceiver")
        p = self.make(amp.BinaryBoxProtocol, boxReceiver=rcv, _currentBox=None, _currentKey=None, MAX_LENGTH=255)

        def drive(call):
            s1 = call(p, "proto_init", i.k)
            m1 = p.MAX_LENGTH
            s2 = call(p, "proto_value", i.v)
            m2 = p.MAX_LENGTH
            s3 = call(p, "proto_key", b"")
            return dict(states=(s1, s2, s3), limits=(m1, m2))
        return dict(drive=drive, objs=dict(p=p))

    def _steps(S):
        ev = [e for e in S.trace if e.name == "boxReceiver.ampBoxReceived"]
        if len(ev) != 1:
            return False
        box = ev[0].args[0]
        pairs = box.pairs if isinstance(box, BoxModel) else list(box.items())
        return band(S.result["states"] == ("value", "key", "init"), S.result["limits"] == (65535, 255),
                    len(pairs) == 1, veq(pairs[0][0], S.i.k), veq(pairs[0][1], S.i.v), S.new.p._currentBox is None)

    ensures = dict(key_value_alternation_and_single_delivery=_steps)
    canaries = [("self.MAX_LENGTH = self._MAX_VALUE_LENGTH", "pass", "key_value_alternation_and_single_delivery")]



# -- AmpList: one box per element ------------------------------------------------------------------------------------


def _objects_to_strings(I, objects, arglist, strings, proto):
    """_objectsToStrings fills the box it is given with the element's arguments: recorded with that box (identity and
    content on arrival), then a key that names the element is put in"""
    c = ctx()
    n = len([e for e in c.trace if e.name == "fill"])
    c.emit("fill", strings, (objects,), {}, {"keys": sorted(strings.keys())})
    strings[b"k%d" % n] = b"v%d" % n
    return strings


class AmpListOneBoxPerElement(Contract):
    """AmpList.toStringProto serialises every element into a box of its own: a fresh, empty box per element (an optional
    argument absent from a later element must not inherit the value of an earlier one: seeded change C30-3), the
    results concatenated in order."""
    prop = "C30"
    module = M
    function = "AmpList.toStringProto"
    differential = False
    calls = {"_objectsToStrings": _objects_to_strings, "Box": "native", "AmpBox": "native"}
    inputs = dict(n=OneOf(0, 1, 2, 3))

    def setup(self, i):
        al = self.make(amp.AmpList, subargs=[(b"a", self.opaque("argtype"))], optional=False)
        elements = [{"a": k} for k in range(i.n)]
        return dict(self=al, args=[elements, self.opaque("proto")], objs=dict(al=al), ghost=dict(elements=elements))

    def bounded_inputs(self, tier):
        return iter(())

    raises = ()

    def _fresh(S):
        fills = [e for e in S.trace if e.name == "fill"]
        els = S.ghost["elements"]
        if len(fills) != len(els):
            return False
        boxes = [e.target for e in fills]
        distinct = all(boxes[a] is not boxes[b] for a in range(len(boxes)) for b in range(a + 1, len(boxes)))
        empty = all(e.snap["keys"] == [] for e in fills)
        order = all(e.args[0] is el for e, el in zip(fills, els))
        want = b"".join(amp.AmpBox({b"k%d" % k: b"v%d" % k}).serialize() for k in range(len(els)))
        return distinct and empty and order and S.result == want

    ensures = dict(a_fresh_empty_box_per_element_results_concatenated_in_order=_fresh)
    canaries = [("_objectsToStrings(objects, self.subargs, Box(), proto).serialize()",
                 "_objectsToStrings(objects, self.subargs, _sharedBox, proto).serialize()",
                 "a_fresh_empty_box_per_element_results_concatenated_in_order")]


CONTRACTS = [Serialize, ParserSteps, AmpListOneBoxPerElement]
BOUNDED = bounded("C30")
NOTES = dict(
    explanation="serialize proved against the wire grammar incl. the empty-key refusal; parser steps proved for one "
                "pair on top of C16's Int16StringReceiver contract; stream behaviour and argument codecs bounded.",
    not_covered=["boxes with more than 2 pairs deductively (loop over a concrete-shape dict is unrolled)",
                 "argument codecs Float/Decimal/DateTime/Path/ListOf deductively (library formatting): bounded only"],
)
MANIFEST = dict(
    category="proof",
    text="AmpBox.serialize is proved (boxes of 0..2 pairs with symbolic keys and values) to emit exactly "
         "len16(k) k len16(v) v ... 00 00 and to refuse exactly keys longer than 255, values longer than 65535 and "
         "the empty key (the box terminator); BinaryBoxProtocol's key/value steps are proved to alternate the length "
         "limit 255/65535, to rebuild the pair and to deliver the box exactly once at the empty string; with C16's "
         "Int16StringReceiver contract this gives the single-pair round trip. Whole streams of boxes under every "
         "split, limit boundaries, unrepresentable boxes and every argument codec are checked by the bounded tier.",
    note="Trusted: pyvc, SMT solvers, struct axiom, C16 contract of Int16StringReceiver (assumed here), sorted() as a "
         "permutation. Deductive part fixes the dict shape (<= 2 pairs). Bounded tier: stated finite scope.",
    technique="contract-based deductive verification (function against wire-grammar spec, SMT VCs) + bounded exhaustive streams and codecs",
)
