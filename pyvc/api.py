"""pyvc.api -- the sidecar contract DSL and the harness that turns a contract
on a real function into verification conditions, discharges them, replays
counter-models on the real code and runs the bounded tier.
"""
from __future__ import annotations

import itertools
import json
import os
import random
import sys
import time
import traceback
from typing import Any, Callable, Dict, List, Optional

import z3

from . import core, interp as interp_mod, models
from .core import (
    Context, SObj, SList, Unsupported, as_bool_term, band, bnot, bor, ctx, implies, is_sym, ite, slen, veq,
    vmax, vmin,
)
from .interp import Interp, LoopSpec, load_function

L = slen  # len() usable in contract lambdas on both concrete and symbolic values


# --------------------------------------------------------------------------
# input type specifications


class Spec:
    def fresh(self, name):
        raise NotImplementedError

    def small(self):
        """Finite list of concrete values for the bounded tier."""
        raise NotImplementedError

    def from_model(self, model, name, symbols):
        raise NotImplementedError


class Int(Spec):
    def __init__(self, lo=None, hi=None, small=None):
        self.lo, self.hi, self._small = lo, hi, small

    def fresh(self, name):
        return core.fresh_int(name, self.lo, self.hi)

    def small(self):
        if self._small is not None:
            return list(self._small)
        lo = self.lo if self.lo is not None else -2
        hi = self.hi if self.hi is not None else lo + 6
        return list(range(lo, min(hi, lo + 6) + 1))

    def from_model(self, model, name, symbols):
        return core.model_value(model, "int", name) if name in model else (self.lo or 0)


class Real(Spec):
    def __init__(self, small=None):
        self._small = small

    def fresh(self, name):
        return core.fresh_real(name)

    def small(self):
        return list(self._small if self._small is not None else [0.0, 0.25, 0.5, 1.0, 1.5, 2.0, 3.0])

    def from_model(self, model, name, symbols):
        return core.model_value(model, "real", name)


class Bool(Spec):
    def fresh(self, name):
        return core.fresh_bool(name)

    def small(self):
        return [False, True]

    def from_model(self, model, name, symbols):
        return core.model_value(model, "bool", name)


class ForkBool(Spec):
    """A boolean input that is case-split at creation (concrete per path)."""

    def fresh(self, name):
        return bool(core.fresh_bool(name))

    small = Bool.small
    from_model = Bool.from_model


class Bytes(Spec):
    def __init__(self, maxlen=None, minlen=None, alphabet=b"ab", small_len=3, kind="bytes"):
        self.maxlen, self.minlen, self.alphabet, self.small_len, self.kind = maxlen, minlen, alphabet, small_len, kind

    def fresh(self, name):
        return core.fresh_seq(name, self.kind, self.maxlen, self.minlen)

    def small(self):
        out = []
        top = self.small_len if self.maxlen is None else min(self.small_len, self.maxlen)
        for n in range(self.minlen or 0, top + 1):
            for t in itertools.product(self.alphabet, repeat=n):
                out.append(bytes(t) if self.kind == "bytes" else "".join(t))
        return out

    def from_model(self, model, name, symbols):
        return core.model_value(model, self.kind, name)


def Str(**kw):
    kw.setdefault("alphabet", "ab")
    return Bytes(kind="str", **kw)


class Opt(Spec):
    def __init__(self, inner):
        self.inner = inner

    def fresh(self, name):
        if bool(core.fresh_bool(name + "?none")):
            return None
        return self.inner.fresh(name)

    def small(self):
        return [None] + self.inner.small()

    def from_model(self, model, name, symbols):
        k = name + "?none"
        if core.model_value(model, "bool", k):
            return None
        return self.inner.from_model(model, name, symbols)


class OneOf(Spec):
    """One of a finite set of concrete values (case split)."""

    def __init__(self, *values):
        self.values = values

    def fresh(self, name):
        for k, v in enumerate(self.values[:-1]):
            if bool(core.fresh_bool("%s?is%d" % (name, k))):
                return v
        return self.values[-1]

    def small(self):
        return list(self.values)

    def from_model(self, model, name, symbols):
        for k, v in enumerate(self.values[:-1]):
            key = "%s?is%d" % (name, k)
            if core.model_value(model, "bool", key):
                return v
        return self.values[-1]


class Val(Spec):
    """Opaque payload (equality only)."""

    def __init__(self, small=("x", "y")):
        self._small = small

    def fresh(self, name):
        return core.fresh_any(name)

    def small(self):
        return list(self._small)

    def from_model(self, model, name, symbols):
        return "val:%s" % (model.get(name, {}).get("repr", "?") if isinstance(model.get(name), dict) else "?")


class RefList(Spec):
    """A list of distinct object references.  Symbolic mode: an SList of
    symbolic references of class `cls`; concrete mode: a list of small ints
    that setup() turns into real objects with Contract.reflist()."""

    def __init__(self, cls, small=((), (1,), (1, 2), (1, 2, 3))):
        self.cls = cls
        self._small = small

    def fresh(self, name):
        l = core.fresh_list(name, ("ref", self.cls))
        # references in one list are pairwise distinct and positive (0 is never a reference)
        i, j = z3.Int(name + "!i"), z3.Int(name + "!j")
        n = z3.Length(l.seq)
        ctx().assume(z3.ForAll([i, j], z3.Implies(z3.And(0 <= i, i < j, j < n), l.seq[i] != l.seq[j])))
        ctx().assume(z3.ForAll([i], z3.Implies(z3.And(0 <= i, i < n), l.seq[i] > 0)))
        return l

    def small(self):
        return [list(x) for x in self._small]

    def from_model(self, model, name, symbols):
        v = model.get(name)
        vals = v.get("seq") if isinstance(v, dict) else None
        return list(vals or [])


class Chunks(Spec):
    """A list of byte strings of which only the concatenation matters."""

    def __init__(self, small=((), (b"a",), (b"a", b"bc")), kind="bytes"):
        self._small = small
        self.kind = kind

    def fresh(self, name):
        return core.SChunks(core.fresh_seq(name, self.kind), self.kind)

    def small(self):
        return [list(x) for x in self._small]

    def from_model(self, model, name, symbols):
        v = core.model_value(model, self.kind, name)
        return [v] if v else []


class ValList(Spec):
    """A list of opaque payload values."""

    def __init__(self, small=((), ("x",), ("x", "y"))):
        self._small = small

    def fresh(self, name):
        return core.fresh_list(name, "val")

    def small(self):
        return [list(x) for x in self._small]

    def from_model(self, model, name, symbols):
        v = model.get(name)
        if isinstance(v, dict) and "repr" in v:
            return ["val%d" % k for k in range(v["repr"].count("Unit"))]
        return []


class Const(Spec):
    def __init__(self, v):
        self.v = v

    def fresh(self, name):
        return self.v

    def small(self):
        return [self.v]

    def from_model(self, model, name, symbols):
        return self.v


class Inputs:
    """Namespace of the leaf inputs of a scenario."""

    def __init__(self, d):
        self.__dict__.update(d)

    def _asdict(self):
        return dict(self.__dict__)

    def __repr__(self):
        return "Inputs(%r)" % self.__dict__


# --------------------------------------------------------------------------
# concrete-mode helpers


class Recorder:
    """Concrete stand-in for an opaque collaborator: every method call is
    recorded as an Event in the active context (same shape as symbolic
    call-outs), or routed to the contract's handler."""

    def __init__(self, name, calls=None, attrs=None):
        self.__dict__["_name"] = name
        self.__dict__["_calls"] = calls or {}
        self.__dict__["_fields"] = dict(attrs or {})

    def __getattr__(self, k):
        f = self.__dict__["_fields"]
        if k in f:
            return f[k]
        if k.startswith("__") and k.endswith("__"):
            raise AttributeError(k)
        name = self.__dict__["_name"]
        calls = self.__dict__["_calls"]
        key = "%s.%s" % (name, k)

        def method(*a, **kw):
            if key in calls:
                return calls[key](NATIVE, self, *a, **kw)
            if name + ".*" in calls:
                return calls[name + ".*"](NATIVE, self, k, *a, **kw)
            ctx().emit(key, self, a, kw)
            return None

        return method

    def __setattr__(self, k, v):
        self.__dict__["_fields"][k] = v

    def __call__(self, *a, **kw):
        key = "%s.__call__" % self._name
        if key in self._calls:
            return self._calls[key](NATIVE, self, *a, **kw)
        ctx().emit(key, self, a, kw)
        return None

    def __repr__(self):
        return "<Recorder %s>" % self.__dict__["_name"]

    def snapshot(self):
        return core.Snapshot(self._name, {k: core.snap_value(v) for k, v in self._fields.items()})


class _Native:
    """Interpreter facade used by call handlers in concrete mode."""

    def call(self, fn, args=(), kwargs=None):
        return fn(*args, **(kwargs or {}))

    def truth(self, v):
        return bool(v)

    def getattr(self, o, name):
        return getattr(o, name)

    def equals(self, a, b):
        return a == b

    calls: dict = {}


NATIVE = _Native()


def snapshot_of(o):
    if isinstance(o, (SObj, Recorder)):
        return o.snapshot()
    if hasattr(o, "__dict__"):
        return core.Snapshot(type(o).__name__, {k: core.snap_value(v) if not isinstance(v, (list, dict)) else
                                                 (list(v) if isinstance(v, list) else dict(v))
                                                 for k, v in vars(o).items()})
    return o


class State:
    """What ensures-clauses see."""

    def __init__(self, i, old, new, result, exc, trace, ghost):
        self.i = i
        self.old = old
        self.new = new
        self.result = result
        self.exc = exc
        self.trace = trace
        self.ghost = ghost

    def raised(self, cls=BaseException):
        return self.exc is not None and isinstance(self.exc, cls)

    def calls(self, name):
        return [e for e in self.trace if e.name == name]


class NSView:
    def __init__(self, d):
        self.__dict__.update(d)


# --------------------------------------------------------------------------
# contracts


class Contract:
    """Base class of sidecar contracts.  Subclasses set:

    prop, module, function      the real function (read from /repo on every run)
    inputs                      dict name -> Spec (leaf inputs)
    requires(i)                 precondition over the inputs
    setup(i)                    -> dict(fn=<callable or (obj, 'method')>, args=[...], objs={name: obj})
                                 built with self.make()/self.opaque() so it works in both modes
    calls                       dict key -> handler(interp, recv, *args)   (library / contract / call-out)
    loops                       dict "<qualname>#<ordinal>" -> LoopSpec
    ensures                     dict name -> lambda S: bool
    raises                      dict ExcClass -> lambda S: bool  (raised exactly when), or tuple of classes
    """

    prop = ""
    module = ""
    function = ""
    inputs: Dict[str, Spec] = {}
    calls: Dict[str, Callable] = {}
    loops: Dict[str, LoopSpec] = {}
    ensures: Dict[str, Callable] = {}
    raises: Any = ()
    frame: Optional[Dict[str, tuple]] = None  # objname -> fields allowed to change
    invariant: Optional[Callable] = None  # object invariant over NSView(objs): assumed on entry, proved at
    # every call-out made through callout() and at exit
    differential = True  # compare the interpreter in concrete mode with CPython on sampled inputs
    summaries: Dict[str, Callable] = {}  # callee contracts used instead of the callee's body in the deductive run
    # only (modular verification: the callee is proved against the same statement by its own Contract); concrete
    # runs always execute the real callee
    patch_classes: tuple = ()  # real classes whose call-out methods (keys "Cls.method" of calls) are intercepted
    # at class level during concrete runs
    trusted: List[str] = []
    canaries: List[tuple] = []  # (old text, new text, clause expected to fail | None for harmless)
    max_paths = 4000
    timeout_quick = 30
    timeout_thorough = 60
    # seconds of wall time per contract after which remaining VCs are left undecided; generous, so that a verdict does
    # not flip to "undecided" merely because all cores are busy (a passing contract ends long before this)
    budget_quick = 600
    budget_thorough = 1800
    bounded_only = False  # contract evaluated only in the bounded tier
    # Does a run of the real code on the solver's *input values* decide whether a refuted ensures/raises obligation is an
    # artefact?  True when the inputs determine the whole scenario.  False when part of the scenario is an uninterpreted
    # function / predicate (a policy, a cache, a URI resolver, a callee that "may raise"): the solver's counterexample
    # then includes an interpretation the replay does not have, and "the replay holds" says nothing about it.
    replay_decides = True
    bounded_random = 200

    def __init__(self):
        self.mode = "symbolic"

    @property
    def name(self):
        return "%s/%s:%s" % (self.prop, self.module, self.function)

    def requires(self, i):
        return True

    # object construction usable in both modes -----------------------------
    def make(self, cls, _name=None, **fields):
        if self.mode == "symbolic":
            return SObj(cls, _name, fields)
        o = cls.__new__(cls)
        for k, v in fields.items():
            try:
                object.__setattr__(o, k, v)
            except AttributeError:
                o.__dict__[k] = v
        # route methods the contract declares as models / call-outs
        for key, h in self.calls.items():
            cname, _, m = key.partition(".")
            if m and m != "*" and (cname == _name or any(k.__name__ == cname for k in cls.__mro__)):
                object.__setattr__(o, m, (lambda h: lambda *a, **kw: h(NATIVE, o, *a, **kw))(h))
        return o

    def opaque(self, name, **attrs):
        if self.mode == "symbolic":
            return SObj(None, name, attrs, opaque=True)
        return Recorder(name, self.calls, attrs)

    def symlist(self, name, items, elem="val"):
        """List-valued field: a symbolic-length list in symbolic mode (items
        is then ignored and a fresh one is created), a real list otherwise."""
        if self.mode == "symbolic":
            return core.fresh_list(name, elem)
        return list(items)

    def reflist(self, ids, factory):
        """List-of-objects field from a RefList input: the symbolic list as is,
        or real objects built by factory(id) for concrete ids (same id, same object)."""
        if isinstance(ids, SList):
            return ids
        cache = self.__dict__.setdefault("_refcache", {})
        out = []
        for k in ids:
            key = (id(ctx()), k)
            if key not in cache:
                cache[key] = factory(k)
            out.append(cache[key])
        return out

    def fresh_ref(self, cls, factory, avoid=()):
        """A newly created object: a fresh symbolic reference distinct from
        every reference in the lists `avoid`, or factory() in concrete mode."""
        if self.mode != "symbolic":
            return factory()
        c = ctx()
        t = z3.Int(c.fresh_name("new_" + cls))
        c.assume(t > 0)
        for l in avoid:
            if isinstance(l, SList):
                c.assume(z3.Not(z3.Contains(l.seq, z3.Unit(t))))
        return core.SRef(t, cls)

    def setup(self, i):
        raise NotImplementedError

    def bounded_inputs(self, tier):
        """Concrete input dicts for the bounded tier (default: full product of
        the specs' small() domains)."""
        names = list(self.inputs)
        doms = [self.inputs[n].small() for n in names]
        for combo in itertools.product(*doms):
            yield dict(zip(names, combo))

    def nontrivial(self, S):
        """Rule for counting a bounded evaluation as non-trivial."""
        return True

    def lemmas(self, S):
        """Instances of proved lemmas made available to the ensures clauses:
        list of (LemmaClass, params-dict)."""
        return []

    def known_regions(self):
        from . import findings
        return findings.for_obligation_prefix(self.name)

    # ----------------------------------------------------------------------

    def load(self):
        pf, sha = load_function(self.module, self.function)
        return pf, sha

    def target_callable(self, pf, st):
        fn = st["fn"]
        return fn


def unchanged_since_last_callout(S, objname, fields):
    """clause helper: the function under contract wrote none of `fields` of object `objname` after its last call-out
    returned (the callee -- re-entrant application code -- may have changed them, and that must stand).  None when the
    run made no call-out."""
    after = S.ghost.get("$after_callout")
    if not after:
        return None
    a = getattr(after[-1][1], objname)
    return band(*[veq(getattr(getattr(S.new, objname), f), getattr(a, f)) for f in fields])


def callout(event, returns=None, havoc=None):
    """Handler for a call into unknown code (user callback, transport, ...):
    (1) the object invariant must hold now (obligation), (2) the call is
    recorded with a snapshot of the scenario's objects, (3) the fields named
    in `havoc` (list of (object-name, field)) are replaced by fresh values
    that satisfy the invariant: re-entrant code may have changed them."""
    def handler(I, recv, *args, **kw):
        c = ctx()
        contract = c.ghost.get("$contract")
        objs = c.ghost.get("$objs", {})
        if contract is not None and contract.invariant is not None:
            inv = contract.invariant(NSView(objs))
            if c.concrete:
                if not inv:
                    c.ghost.setdefault("$inv_failures", []).append(event)
            else:
                c.oblige("%s/invariant/at-callout/%s" % (contract.name, event), inv, "invariant")
        snap = NSView({k: snapshot_of(o) for k, o in objs.items()})
        c.emit(event, recv, args, kw, snap)
        if havoc and not c.concrete:
            interp = c.ghost.get("$interp")
            for oname, fld in havoc:
                o = objs[oname]
                cur = o._fields[fld]
                o._fields[fld] = interp.havoc_like(cur, "%s_%s" % (oname, fld))
            if contract.invariant is not None:
                c.assume(as_bool_term(contract.invariant(NSView(objs))))
        # the state the callee left behind (after the havoc): what the caller writes afterwards can be compared with it
        c.ghost.setdefault("$after_callout", []).append((event, NSView({k: snapshot_of(o) for k, o in objs.items()})))
        if callable(returns):
            return returns(I, recv, *args, **kw)
        return returns
    return handler


def _run_target(contract, pf, st, I):
    """Call the function under contract inside the interpreter."""
    fn = st.get("fn")
    args = st.get("args", [])
    kwargs = st.get("kwargs", {})
    I.overrides[pf.qualname] = pf
    for q, f in getattr(pf, "extra_overrides", {}).items():  # canary edit of an inlined callee
        I.overrides[q] = f
    if "drive" in st:
        def caller(obj, name, *a, **kw):
            if name is None:
                return I.call(obj, list(a), kw)
            return I.call(I.getattr(obj, name), list(a), kw)
        return st["drive"](caller)
    if fn is None:
        recv = st.get("self")
        if recv is not None:
            return I.run_function(pf, [recv] + list(args), dict(kwargs))
        return I.run_function(pf, list(args), dict(kwargs))
    return I.call(fn, args, kwargs)


def _run_target_native(contract, st):
    fn = st.get("fn")
    args = st.get("args", [])
    kwargs = st.get("kwargs", {})
    if "drive" in st:
        def caller(obj, name, *a, **kw):
            if name is None:
                return obj(*a, **kw)
            return getattr(obj, name)(*a, **kw)
        return st["drive"](caller)
    if fn is None:
        recv = st.get("self")
        name = contract.function.split(".")[-1]
        if recv is not None:
            return getattr(recv, name)(*args, **kwargs)
        import importlib
        mod = importlib.import_module(contract.module)
        o = mod
        for part in contract.function.split("."):
            o = getattr(o, part)
        return o(*args, **kwargs)
    return fn(*args, **kwargs)


def nested_paths(c: Context, fn):
    """Enumerate the decision paths of a pure function `fn` evaluated in the
    current path context; yields (extra_pc, value).  The outer schedule is
    left untouched."""
    base_pc = list(c.pc)
    saved = (c.schedule, c.pos, c.trail)
    sched: List[bool] = []
    alts: List[bool] = []
    out = []
    try:
        while True:
            c.pc = list(base_pc)
            c.schedule, c.pos, c.trail = sched, 0, []
            try:
                v = fn()
                out.append((c.pc[len(base_pc):], v))
            except core.Infeasible:
                pass
            for k, (ch, alt) in enumerate(c.trail):
                if k >= len(alts):
                    alts.append(alt)
            sched = c.schedule[: len(c.trail)]
            alts = alts[: len(sched)]
            while sched and not alts[-1]:
                sched.pop()
                alts.pop()
            if not sched:
                break
            sched[-1] = not sched[-1]
            alts[-1] = False
            if len(out) > 256:
                raise core.PathLimit("clause forks too much")
    finally:
        c.pc = base_pc
        c.schedule, c.pos, c.trail = saved
    return out


class FunctionResult:
    def __init__(self, contract):
        self.contract = contract.name
        self.function = "%s:%s" % (contract.module, contract.function)
        self.sha = None
        self.paths = 0
        self.obligations: List[dict] = []
        self.undecided: List[dict] = []
        self.violations: List[dict] = []
        self.known: List[dict] = []
        self.unsupported: Optional[str] = None
        self.error: Optional[str] = None
        self.cover_ok = None
        self.solver_s = 0.0
        self.wall_s = 0.0
        self.bounded: Optional[dict] = None
        self.axioms: List[str] = []
        self.trusted: List[str] = list(contract.trusted)

    def asdict(self):
        return self.__dict__


def symbolic_run(contract: Contract, tier="quick", mutate=None, stop_on=None) -> FunctionResult:
    """Generate and discharge all VCs of one contract.  `mutate` optionally
    maps the function's source text to a mutated text (canary self-check)."""
    res = FunctionResult(contract)
    t0 = time.time()
    contract.mode = "symbolic"
    models.USED_AXIOMS.clear()
    timeout = contract.timeout_quick if tier == "quick" else contract.timeout_thorough
    budget = contract.budget_quick if tier == "quick" else contract.budget_thorough
    if mutate is not None:
        timeout = min(timeout, 15)  # canary runs only need the refutation, which is fast
        # generous: a loaded machine must not turn a caught mutant into "not caught"; a contract with many slow paths
        # states its own (canary_budget)
        budget = getattr(contract, "canary_budget", 300)
    try:
        pf, sha = contract.load()
        res.sha = sha
        if mutate is not None:
            pf = mutate(pf)
        pending: List[tuple] = []
        regions = contract.known_regions()
        seen_known = set()

        def run(c: Context):
            I = Interp(calls=dict(contract.calls, **contract.summaries), loops=contract.loops, tag=contract.name)
            c.pc_slices = bool(getattr(contract, "pc_slices", False))
            vals = {n: s.fresh(n) for n, s in contract.inputs.items()}
            i = Inputs(vals)
            req = contract.requires(i)
            if not isinstance(req, bool) or not req:
                c.assume(as_bool_term(req))
            c.check_feasible()
            in_known = None
            for reg in regions:
                if bool(reg["fn"](i)):
                    in_known = reg
                    break
            st = contract.setup(i)
            objs = st.get("objs", {})
            old = NSView({k: snapshot_of(o) for k, o in objs.items()})
            c.ghost.update(st.get("ghost", {}))
            c.ghost["$objs"] = objs
            c.ghost["$contract"] = contract
            c.ghost["$interp"] = I
            if contract.invariant is not None:
                c.assume(as_bool_term(contract.invariant(NSView(objs))))  # object invariant holds on entry
                c.check_feasible()
            exc = None
            value = None
            try:
                value = _run_target(contract, pf, st, I)
            except (core.Infeasible, core.Cut, Unsupported, core.PathLimit, RecursionError):
                raise
            except BaseException as e:
                if isinstance(e, (KeyboardInterrupt, SystemExit, MemoryError)):
                    raise
                exc = e
            if contract.invariant is not None:
                c.oblige("%s/invariant/at-exit" % contract.name, contract.invariant(NSView(objs)), "invariant")
            S = State(i, old, NSView(objs), value, exc, list(c.trace), dict(c.ghost))
            return S, in_known

        def discharge():
            """Decide the obligations generated so far; returns True when a canary run found what it looks for."""
            hit = False
            items = list(pending)
            del pending[:]
            for ob, S in items:
                rec = {"name": ob.name, "kind": ob.kind}
                g = z3.simplify(ob.goal)
                if z3.is_true(g):
                    rec.update(backend="simplifier", verdict="unsat", seconds=0.0)
                    res.obligations.append(rec)
                    continue
                ts = time.time()
                if ts - t0 > budget:
                    verdict, backend, model = "unknown", "budget-exhausted", None
                else:
                    verdict, backend, model = core.solve(ob.hyps + [z3.Not(ob.goal)], timeout, want_model=True,
                                                         inproc_budget=getattr(contract, "inproc_budget", 4.0))
                    if verdict == "sat":
                        from . import spec as _spec
                        r2 = _spec.confirm_sat(ob.hyps + [z3.Not(ob.goal)], timeout)
                        if r2 == "unsat":
                            verdict, backend = "unsat", "z3py-recfun"
                        elif r2 == "unknown":
                            verdict, backend = "unknown", "abstraction-sat-unconfirmed"
                dt = time.time() - ts
                if os.environ.get("PYVC_DEBUG"):
                    print("[pyvc] %s %s %s %.2fs" % (ob.name, verdict, backend, dt), file=sys.stderr, flush=True)
                res.solver_s += dt
                rec.update(backend=backend, verdict=verdict, seconds=round(dt, 3))
                res.obligations.append(rec)
                if verdict == "unsat":
                    continue
                if verdict == "unknown":
                    res.undecided.append(rec)
                    continue
                vio = {"obligation": ob.name, "backend": backend, "info": ob.info}
                if model is not None:
                    try:
                        vio["inputs"] = model_inputs(contract, model)
                    except Exception as e:  # model read-back is best effort
                        vio["inputs_error"] = repr(e)
                    vio["model"] = model.get("__text__", "")[:2000]
                res.violations.append(vio)
                if stop_on is not None and stop_on in ob.name:
                    hit = True
            return hit

        cover = 0
        for c, outcome in core.explore(run, max_paths=contract.max_paths, feas_retry=getattr(contract, "feas_retry", True),
                                       feas_timeout=getattr(contract, "feas_timeout", 2.0)):
            res.paths += 1
            if time.time() - t0 > budget:
                raise core.PathLimit("time budget of %ds exhausted during path exploration" % budget)
            kind, payload = outcome
            if kind == "exc":
                raise payload
            if kind == "cut":
                for ob in c.obligations:
                    pending.append((ob, None))
                if discharge():
                    break
                continue
            S, in_known = payload
            cover += 1
            if in_known is not None:
                seen_known.add(in_known["id"])
                res.known.append({"id": in_known["id"], "path": res.paths})
                continue
            for ob in c.obligations:
                pending.append((ob, S))
            # exception clause
            raises = contract.raises
            if S.exc is not None:
                allowed = raises if isinstance(raises, dict) else {k: None for k in raises}
                ok = any(isinstance(S.exc, k) for k in allowed)
                if not ok and isinstance(S.exc, core.UnmodelledAttribute):
                    raise Unsupported("the contract's setup does not model an attribute the code reads: %s" % S.exc)
                if not ok:
                    ob = core.Obligation("%s/raises/unexpected:%s" % (contract.name, type(S.exc).__name__),
                                         list(c.pc), z3.BoolVal(False), "raises",
                                         {"exc": repr(S.exc)[:200]})
                    pending.append((ob, S))
            if isinstance(raises, dict):
                for k, cond in raises.items():
                    if cond is None:
                        continue
                    did = S.exc is not None and isinstance(S.exc, k)
                    for extra, v in nested_paths(c, lambda: cond(S)):
                        goal = as_bool_term(v) if did else z3.Not(as_bool_term(v))
                        pending.append((core.Obligation("%s/raises/%s-exactly-when" % (contract.name, k.__name__),
                                                        list(c.pc) + extra, goal, "raises"), S))
            for Lm, largs in contract.lemmas(S):
                Lm.use(**largs)
            for cname, clause in contract.ensures.items():
                try:
                    for extra, v in nested_paths(c, lambda: _clause_value(clause, S)):
                        if v is None:
                            continue  # clause not applicable on this path
                        pending.append((core.Obligation("%s/ensures/%s" % (contract.name, cname),
                                                        list(c.pc) + extra, as_bool_term(v), "ensures"), S))
                except (Unsupported, core.PathLimit):
                    raise
                except Exception as e:
                    raise ContractError("clause %s of %s failed to evaluate: %r\n%s" % (
                        cname, contract.name, e, traceback.format_exc()))
            if contract.frame is not None:
                for oname, allowed in contract.frame.items():
                    o_old = getattr(S.old, oname)
                    o_new = getattr(S.new, oname)
                    for fld, v0 in o_old._fields.items():
                        if fld in allowed:
                            continue
                        v1 = o_new._fields.get(fld, _MISSING)
                        same = (v1 is v0) or (v1 is not _MISSING and veq(v0, v1))
                        pending.append((core.Obligation("%s/frame/%s.%s" % (contract.name, oname, fld),
                                                        list(c.pc), as_bool_term(same), "frame"), S))
            if discharge():
                break
        res.cover_ok = cover > 0
        res.axioms = sorted(models.USED_AXIOMS)
        res.known_ids = sorted(seen_known)
    except Unsupported as e:
        res.unsupported = str(e)
    except core.PathLimit as e:
        res.unsupported = "path limit: %s" % e
    except RecursionError as e:
        res.unsupported = "recursion limit in interpreter"
    except ContractError as e:
        res.error = str(e)
    except Exception as e:
        res.error = "%r\n%s" % (e, traceback.format_exc())
    res.wall_s = round(time.time() - t0, 3)
    return res


_MISSING = object()


def _clause_value(clause, S):
    """A clause that cannot even be evaluated on a feasible path because the
    result has the wrong shape (too short, wrong type, missing attribute) is
    false on that path."""
    try:
        return clause(S)
    except (IndexError, KeyError, AttributeError, TypeError, ValueError) as e:
        if isinstance(e, (Unsupported,)):
            raise
        return False


class ContractError(Exception):
    pass


def model_inputs(contract, model):
    """Concrete inputs of the scenario under a model (dict name -> value)."""
    return {n: sp.from_model(model, n, None) for n, sp in contract.inputs.items()}


# --------------------------------------------------------------------------
# concrete execution of the same scenario on the real function


def concrete_run(contract: Contract, inputs: dict, native=True):
    """Run the scenario on concrete inputs.  native=True calls the real
    function with CPython; native=False runs the interpreter (differential
    self-check).  Returns (State, failures) where failures lists violated
    clause names; returns (None, None) if requires() is false."""
    contract.mode = "concrete" if native else "symbolic"
    c = Context()
    c.concrete = True
    old_ctx = core.CTX
    core.set_ctx(c)
    try:
        i = Inputs(dict(inputs))
        if not contract.requires(i):
            return None, None
        st = contract.setup(i)
        objs = st.get("objs", {})
        old = NSView({k: snapshot_of(o) for k, o in objs.items()})
        c.ghost.update(st.get("ghost", {}))
        c.ghost["$objs"] = objs
        c.ghost["$contract"] = contract
        if contract.invariant is not None and not contract.invariant(NSView(objs)):
            return None, None  # the object invariant is part of the precondition
        exc = None
        value = None
        patched = []
        if native:
            # methods the contract treats as call-outs are intercepted on the real classes too, so objects
            # created by the code under test (e.g. a new Deferred) record the same events
            for cls in contract.patch_classes:
                for key, h in contract.calls.items():
                    cname, _, m = key.partition(".")
                    if cname == cls.__name__ and m and m != "*" and m in cls.__dict__:
                        patched.append((cls, m, cls.__dict__[m]))
                        setattr(cls, m, (lambda h: lambda self_, *a, **kw: h(NATIVE, self_, *a, **kw))(h))
        try:
            if native:
                value = _run_target_native(contract, st)
            else:
                pf, _ = contract.load()
                I = Interp(calls=contract.calls, loops={}, tag=contract.name)
                value = _run_target(contract, pf, st, I)
        except (Unsupported, core.PathLimit):
            raise
        except BaseException as e:
            if isinstance(e, (KeyboardInterrupt, SystemExit, MemoryError)):
                raise
            exc = e
        finally:
            for cls, m, orig in patched:
                setattr(cls, m, orig)
        S = State(i, old, NSView(objs), value, exc, list(c.trace), dict(c.ghost))
        fails = evaluate_clauses(contract, S)
        fails += ["invariant/at-callout/%s" % e for e in c.ghost.get("$inv_failures", [])]
        if contract.invariant is not None and not contract.invariant(NSView(objs)):
            fails.append("invariant/at-exit")
        return S, fails
    finally:
        core.set_ctx(old_ctx)
        contract.mode = "symbolic"


def evaluate_clauses(contract, S):
    fails = []
    raises = contract.raises
    if S.exc is not None:
        allowed = raises if isinstance(raises, dict) else {k: None for k in raises}
        if not any(isinstance(S.exc, k) for k in allowed):
            fails.append("raises/unexpected:%s" % type(S.exc).__name__)
    if isinstance(raises, dict):
        for k, cond in raises.items():
            if cond is None:
                continue
            did = S.exc is not None and isinstance(S.exc, k)
            if bool(cond(S)) != did:
                fails.append("raises/%s-exactly-when" % k.__name__)
    for cname, clause in contract.ensures.items():
        v = _clause_value(clause, S)
        if v is None:
            continue
        if not v:
            fails.append("ensures/%s" % cname)
    if contract.frame is not None and S.exc is None or contract.frame is not None:
        for oname, allowed in contract.frame.items():
            o_old = getattr(S.old, oname)
            o_new = getattr(S.new, oname)
            newf = o_new._fields if hasattr(o_new, "_fields") else vars(o_new)
            for fld, v0 in o_old._fields.items():
                if fld in allowed:
                    continue
                v1 = newf.get(fld, _MISSING)
                if not (v1 is v0 or v1 == v0):
                    fails.append("frame/%s.%s" % (oname, fld))
    return fails


def jsonable(v, depth=0):
    if depth > 6:
        return repr(v)[:80]
    if isinstance(v, (bytes, bytearray)):
        return {"bytes": bytes(v).decode("latin-1")}
    if isinstance(v, (int, float, str, bool)) or v is None:
        return v
    if isinstance(v, (list, tuple)):
        return [jsonable(x, depth + 1) for x in v]
    if isinstance(v, dict):
        return {str(k): jsonable(x, depth + 1) for k, x in v.items()}
    if isinstance(v, core.Event):
        return {"event": v.name, "args": jsonable(v.args, depth + 1)}
    if isinstance(v, BaseException):
        return {"exception": type(v).__name__, "msg": str(v)[:120]}
    if isinstance(v, SObj):
        return {"object": v._cls.__name__ if v._cls else v._name,
                "fields": {k: jsonable(x, depth + 1) for k, x in sorted(v._fields.items())}}
    if isinstance(v, Recorder):
        return {"object": v._name, "fields": {k: jsonable(x, depth + 1) for k, x in sorted(v._fields.items())}}
    if isinstance(v, (set, frozenset)):
        return sorted((jsonable(x, depth + 1) for x in v), key=repr)
    if type(v).__module__.startswith("twisted.") and hasattr(v, "__dict__") and not isinstance(v, type) \
            and not callable(v):
        return {"object": type(v).__name__,
                "fields": {k: jsonable(x, depth + 1) for k, x in sorted(vars(v).items())}}
    return repr(v)[:120]


def unjson(v):
    if isinstance(v, dict) and set(v) == {"bytes"}:
        return v["bytes"].encode("latin-1")
    if isinstance(v, list):
        return [unjson(x) for x in v]
    if isinstance(v, dict):
        return {k: unjson(x) for k, x in v.items()}
    return v


def bounded_run(contract: Contract, tier="quick", seed=0, budget_s=None):
    """Evaluate the executable contract on the real function for every input of
    the contract's finite scope."""
    t0 = time.time()
    evals = 0
    nontrivial = set()
    failures = []
    known_hits = {}
    samples = []
    regions = contract.known_regions()
    exhaustive = True
    for inp in contract.bounded_inputs(tier):
        if budget_s is not None and time.time() - t0 > budget_s:
            exhaustive = False
            break
        try:
            S, fails = concrete_run(contract, inp, native=True)
        except Exception as e:
            failures.append({"inputs": jsonable(inp), "failed": ["harness-error: %r" % (e,)],
                             "trace": traceback.format_exc()[-800:]})
            continue
        if S is None:
            continue
        evals += 1
        if contract.nontrivial(S):
            nontrivial.add(repr(sorted((k, repr(v)) for k, v in inp.items())))
        if len(samples) < 3 and evals % 7 == 1:
            samples.append({"inputs": jsonable(inp), "result": jsonable(S.result),
                            "raised": type(S.exc).__name__ if S.exc else None})
        if fails:
            reg = None
            for r in regions:
                try:
                    if r["fn"](S.i):
                        reg = r
                        break
                except Exception:
                    pass
            if reg is not None:
                known_hits[reg["id"]] = known_hits.get(reg["id"], 0) + 1
            else:
                failures.append({"inputs": jsonable(inp), "failed": fails, "observed": jsonable(S.result),
                                 "raised": repr(S.exc) if S.exc else None})
                if len(failures) >= 5:
                    exhaustive = False
                    break
    return {
        "contract": contract.name,
        "evaluations": evals,
        "distinct_nontrivial": len(nontrivial),
        "failures": failures,
        "known_hits": known_hits,
        "samples": samples,
        "exhaustive": exhaustive,
        "wall_s": round(time.time() - t0, 3),
    }


# --------------------------------------------------------------------------
# stand-alone bounded checks (for functions outside the verifier's reach)


class Bounded:
    """An executable contract evaluated exhaustively over a finite scope on
    the real code.  Subclasses implement cases(tier) yielding inputs, and
    check(case) returning None (held), a string (what failed), or raising
    Skip for inputs outside the precondition."""

    prop = ""
    title = ""
    scope = ""
    functions: List[str] = []

    class Skip(Exception):
        pass

    def cases(self, tier, rng):
        raise NotImplementedError

    def check(self, case):
        raise NotImplementedError

    def nontrivial(self, case):
        return True

    def known(self, case, what=""):
        """Return a known-finding id if this failing case lies in a listed region (the region predicate
        sees the case and the failure text `what`)."""
        from . import findings
        for r in findings.for_obligation_prefix("%s/bounded/%s" % (self.prop, type(self).__name__)):
            try:
                if r["fn"](case, str(what)):
                    return r["id"]
            except Exception:
                pass
        return None

    @property
    def name(self):
        return "%s/bounded/%s" % (self.prop, type(self).__name__)


def run_bounded_check(b: Bounded, tier="quick", seed=0, budget_s=None):
    t0 = time.time()
    rng = random.Random(seed)
    evals = 0
    nontriv = set()
    failures = []
    known_hits = {}
    samples = []
    exhaustive = True
    for case in b.cases(tier, rng):
        if budget_s is not None and time.time() - t0 > budget_s:
            exhaustive = False
            break
        try:
            r = b.check(case)
        except Bounded.Skip:
            continue
        except Exception as e:
            r = "harness-error %r: %s" % (e, traceback.format_exc()[-600:])
        evals += 1
        if b.nontrivial(case):
            nontriv.add(repr(case))
        if len(samples) < 3 and evals % 11 == 1:
            samples.append(jsonable(case))
        if r is not None:
            kid = b.known(case, r)
            if kid is not None:
                known_hits[kid] = known_hits.get(kid, 0) + 1
                continue
            failures.append({"case": jsonable(case), "what": str(r)[:600]})
            if len(failures) >= 5:
                exhaustive = False
                break
    return {
        "contract": b.name, "title": b.title, "scope": b.scope, "functions": b.functions,
        "evaluations": evals, "distinct_nontrivial": len(nontriv), "failures": failures,
        "known_hits": known_hits, "samples": samples, "exhaustive": exhaustive,
        "wall_s": round(time.time() - t0, 3),
    }
