"""pyvc.interp -- a definitional interpreter for the Python subset of
DESIGN.md 2.2 that executes the *real* source of /repo functions over the
symbolic values of pyvc.core.  All control-flow forks go through
Context.decide, so `core.explore` enumerates paths by re-execution.
"""
from __future__ import annotations

import ast
import builtins
import hashlib
import importlib
import inspect
import operator
import types
from typing import Any, Dict, List, Optional

import z3

from . import core
from .core import (
    SV, SAny, SBool, SInt, SList, SObj, SReal, SRef, SSeq, Unsupported, as_bool_term, band, bnot, bor,
    ctx, is_sym, mk_bool, slen, veq,
)

# --------------------------------------------------------------------------
# source loading


_MODULE_AST: Dict[str, ast.Module] = {}
_MODULE_SRC: Dict[str, str] = {}


def module_ast(filename: str) -> ast.Module:
    if filename not in _MODULE_AST:
        with open(filename, "r", encoding="utf-8") as f:
            src = f.read()
        _MODULE_SRC[filename] = src
        _MODULE_AST[filename] = ast.parse(src, filename)
    return _MODULE_AST[filename]


def invalidate_sources():
    _MODULE_AST.clear()
    _MODULE_SRC.clear()
    _FUNC_CACHE.clear()


def find_def(tree: ast.AST, qualname: str):
    """Locate a (possibly nested) def/class by dotted qualified name."""
    node = tree
    for part in qualname.split("."):
        found = None
        for child in ast.walk(node) if node is tree and False else _body_nodes(node):
            if isinstance(child, (ast.FunctionDef, ast.AsyncFunctionDef, ast.ClassDef)) and child.name == part:
                found = child
        if found is None:
            raise LookupError("no definition %r in %s" % (part, qualname))
        node = found
    return node


def _body_nodes(node):
    """Definitions directly inside node (descending through if/try/with but
    not into other defs)."""
    stack = list(getattr(node, "body", []))
    while stack:
        n = stack.pop(0)
        yield n
        if isinstance(n, (ast.If, ast.Try, ast.With, ast.For, ast.While)):
            for fld in ("body", "orelse", "finalbody", "handlers"):
                for sub in getattr(n, fld, []) or []:
                    if isinstance(sub, ast.ExceptHandler):
                        stack.extend(sub.body)
                    else:
                        stack.append(sub)


class PyFunc:
    """A function of the code under verification, executed from its AST."""

    def __init__(self, node, globs, closure=None, name=None, qualname=None, filename=None, defaults=None,
                 kwdefaults=None):
        self.node = node
        self.globs = globs
        self.closure = closure
        self.name = name or getattr(node, "name", "<lambda>")
        self.qualname = qualname or self.name
        self.filename = filename
        self.defaults = defaults
        self.kwdefaults = kwdefaults
        self.real = None

    def __repr__(self):
        return "<PyFunc %s>" % self.qualname


_FUNC_CACHE: Dict[Any, PyFunc] = {}


def pyfunc_of(fn) -> Optional[PyFunc]:
    """PyFunc for a real Python function object (source must be available)."""
    fn = inspect.unwrap(fn) if hasattr(fn, "__wrapped__") else fn
    if not isinstance(fn, types.FunctionType):
        return None
    code = fn.__code__
    key = code
    if key in _FUNC_CACHE:
        return _FUNC_CACHE[key]
    filename = code.co_filename
    try:
        tree = module_ast(filename)
    except (OSError, SyntaxError):
        return None
    target = None
    for n in ast.walk(tree):
        if isinstance(n, (ast.FunctionDef, ast.AsyncFunctionDef)) and n.name == fn.__name__:
            first = min([n.lineno] + [d.lineno for d in n.decorator_list])
            if first == code.co_firstlineno or n.lineno == code.co_firstlineno:
                target = n
                break
        elif isinstance(n, ast.Lambda) and fn.__name__ == "<lambda>" and n.lineno == code.co_firstlineno:
            target = n
            break
    if target is None:
        return None
    closure = None
    if fn.__closure__:
        closure = Env(None)
        for nm, cell in zip(code.co_freevars, fn.__closure__):
            try:
                closure.vars[nm] = cell.cell_contents
            except ValueError:
                pass
    pf = PyFunc(target, fn.__globals__, closure, fn.__name__, fn.__qualname__, filename,
                defaults=fn.__defaults__, kwdefaults=fn.__kwdefaults__)
    pf.real = fn
    _FUNC_CACHE[key] = pf
    return pf


def load_function(module: str, qualname: str):
    """(PyFunc, source-hash) of module:qualname read from the working tree."""
    mod = importlib.import_module(module)
    filename = inspect.getsourcefile(mod)
    tree = module_ast(filename)
    node = find_def(tree, qualname)
    seg = ast.get_source_segment(_MODULE_SRC[filename], node) or ""
    sha = hashlib.sha256(seg.encode()).hexdigest()
    pf = PyFunc(node, mod.__dict__, None, node.name, qualname, filename)
    return pf, sha


def function_source(module: str, qualname: str) -> str:
    mod = importlib.import_module(module)
    filename = inspect.getsourcefile(mod)
    tree = module_ast(filename)
    node = find_def(tree, qualname)
    return ast.get_source_segment(_MODULE_SRC[filename], node) or ""


# --------------------------------------------------------------------------
# environments and control flow


class Env:
    def __init__(self, parent, local_names=None):
        self.parent = parent
        self.vars: Dict[str, Any] = {}
        self.local_names = local_names or set()
        self.nonlocals = set()
        self.globals_decl = set()

    def lookup(self, name):
        e = self
        while e is not None:
            if name in e.vars:
                return e.vars[name]
            e = e.parent
        raise KeyError(name)

    def find_scope(self, name):
        e = self
        while e is not None:
            if name in e.vars or name in e.local_names:
                return e
            e = e.parent
        return None


class _Return(Exception):
    def __init__(self, value):
        self.value = value


class _Break(Exception):
    pass


class _Continue(Exception):
    pass


class BoundMethod:
    def __init__(self, fn, recv, name=None, owner=None):
        self.fn = fn
        self.recv = recv
        self.name = name
        self.owner = owner

    def __repr__(self):
        return "<BoundMethod %s of %r>" % (self.name, self.recv)

    def __eq__(self, o):
        return isinstance(o, BoundMethod) and o.recv is self.recv and o.name == self.name

    def __hash__(self):
        return hash((id(self.recv), self.name))


class SeqMethod:
    """bytes/str method bound to a (possibly symbolic) receiver."""

    def __init__(self, recv, name):
        self.recv = recv
        self.name = name


class Opaque:
    """Callable stand-in returned for an attribute of an opaque collaborator."""

    def __init__(self, obj, name):
        self.obj = obj
        self.name = name


def assigned_names(nodes) -> set:
    """Names bound in a function body (not descending into nested defs)."""
    out = set()

    def visit(n):
        if isinstance(n, (ast.FunctionDef, ast.AsyncFunctionDef, ast.ClassDef)):
            out.add(n.name)
            return
        if isinstance(n, ast.Lambda):
            return
        if isinstance(n, ast.Name) and isinstance(n.ctx, (ast.Store, ast.Del)):
            out.add(n.id)
        if isinstance(n, ast.ExceptHandler) and n.name:
            out.add(n.name)
        if isinstance(n, (ast.Import, ast.ImportFrom)):
            for a in n.names:
                out.add((a.asname or a.name).split(".")[0])
        for c in ast.iter_child_nodes(n):
            visit(c)

    for n in nodes:
        visit(n)
    return out


def loop_targets(node) -> tuple:
    """(names, attribute-paths) assigned anywhere inside a loop body."""
    names = set()
    attrs = set()

    def path(n):
        if isinstance(n, ast.Name):
            return n.id
        if isinstance(n, ast.Attribute):
            p = path(n.value)
            return None if p is None else p + "." + n.attr
        return None

    def visit(n):
        if isinstance(n, (ast.FunctionDef, ast.Lambda, ast.ClassDef)):
            return
        if isinstance(n, ast.Name) and isinstance(n.ctx, (ast.Store, ast.Del)):
            names.add(n.id)
        elif isinstance(n, ast.Attribute) and isinstance(n.ctx, (ast.Store, ast.Del)):
            p = path(n)
            if p:
                attrs.add(p)
        elif isinstance(n, ast.Subscript) and isinstance(n.ctx, (ast.Store, ast.Del)):
            p = path(n.value)
            if p:
                (attrs if "." in p else names).add(p)
        elif isinstance(n, ast.Call) and isinstance(n.func, ast.Attribute) and n.func.attr in (
            "append", "pop", "extend", "remove", "insert", "clear", "sort", "reverse", "add", "discard", "update",
            "popleft", "appendleft", "setdefault",
        ):
            p = path(n.func.value)
            if p:
                (attrs if "." in p else names).add(p)
        for c in ast.iter_child_nodes(n):
            visit(c)

    for b in node.body + getattr(node, "orelse", []):
        visit(b)
    if isinstance(node, ast.For):
        for n in ast.walk(node.target):
            if isinstance(n, ast.Name):
                names.add(n.id)
    return names, attrs


_CMP = {
    ast.Lt: operator.lt, ast.LtE: operator.le, ast.Gt: operator.gt, ast.GtE: operator.ge,
}
_BIN = {
    ast.Add: operator.add, ast.Sub: operator.sub, ast.Mult: operator.mul, ast.FloorDiv: operator.floordiv,
    ast.Div: operator.truediv, ast.Mod: operator.mod, ast.RShift: operator.rshift, ast.LShift: operator.lshift,
    ast.BitAnd: operator.and_, ast.BitOr: operator.or_, ast.BitXor: operator.xor, ast.Pow: operator.pow,
}


class LoopSpec:
    """Inductive invariant for one loop.  `inv(v)` receives a namespace of the
    loop's visible variables (attribute access) and returns a boolean;
    `modifies` optionally lists extra names / dotted paths to havoc;
    `types` gives havoc types for variables whose current value does not
    determine one; `decreases(v)` optional variant (int, >= 0, strictly
    decreasing)."""

    def __init__(self, inv, modifies=(), types=None, decreases=None, unroll=None, ghost=(), hints=None, have=None,
                 frozen=()):
        self.frozen = tuple(frozen)
        self.inv = inv
        self.hints = hints
        self.have = have  # have(v) -> facts about the state at the loop head; each is proved, then assumed
        self.modifies = tuple(modifies)
        self.types = types or {}
        self.decreases = decreases
        self.unroll = unroll
        self.ghost = tuple(ghost)


class NS:
    """Namespace view over an Env (+ ghost dict) for loop invariants."""

    def __init__(self, env, extra=None):
        object.__setattr__(self, "_env", env)
        object.__setattr__(self, "_extra", extra or {})

    def __getattr__(self, k):
        ex = object.__getattribute__(self, "_extra")
        if k in ex:
            return ex[k]
        try:
            return object.__getattribute__(self, "_env").lookup(k)
        except KeyError:
            raise AttributeError(k)


class Interp:
    """One interpreter per scenario.  `resolver(key, callee, recv, args,
    kwargs)` may return (True, value) to take over a call."""

    MAX_DEPTH = 40

    def __init__(self, calls=None, loops=None, attr_hook=None, tag=""):
        self.calls = calls or {}
        self.loops = loops or {}
        self.attr_hook = attr_hook
        self.depth = 0
        self.tag = tag
        self.loop_counters: Dict[str, int] = {}
        self.steps = 0
        self.overrides: Dict[str, PyFunc] = {}

    # ------------------------------------------------------------------
    # calling

    def call(self, fn, args=(), kwargs=None):
        kwargs = kwargs or {}
        args = list(args)
        if isinstance(fn, BoundMethod):
            key_names = []
            recv = fn.recv
            if isinstance(recv, SObj):
                key_names.append("%s.%s" % (recv._name, fn.name))
                cls = recv._cls
                if cls is not None:
                    for k in cls.__mro__:
                        key_names.append("%s.%s" % (k.__name__, fn.name))
            elif isinstance(recv, SRef):
                key_names.append("%s.%s" % (recv.cls, fn.name))
            for k in key_names:
                if k in self.calls:
                    return self.calls[k](self, recv, *args, **kwargs)
            if fn.fn is None:
                raise Unsupported("call of %s on %r has no contract/model" % (fn.name, recv))
            return self.call(fn.fn, [recv] + args, kwargs)
        if isinstance(fn, Opaque):
            key = "%s.%s" % (fn.obj._name, fn.name)
            if key in self.calls:
                return self.calls[key](self, fn.obj, *args, **kwargs)
            if "%s.*" % fn.obj._name in self.calls:
                return self.calls["%s.*" % fn.obj._name](self, fn.obj, fn.name, *args, **kwargs)
            ctx().emit(key, fn.obj, args, kwargs)
            return None
        if isinstance(fn, SeqMethod):
            from . import models
            return models.seq_method(self, fn.recv, fn.name, args, kwargs)
        if isinstance(fn, PyFunc):
            key = fn.qualname
            if key in self.calls and self.depth > 0:
                return self.calls[key](self, *args, **kwargs)
            return self.run_function(fn, args, kwargs)
        if isinstance(fn, (SObj,)):
            if "__call__" in self.calls.get("%s.__call__" % fn._name, {}) if False else False:
                pass
            key = "%s.__call__" % fn._name
            if key in self.calls:
                return self.calls[key](self, fn, *args, **kwargs)
            if fn._opaque:
                ctx().emit(key, fn, args, kwargs)
                return None
            m = self.getattr(fn, "__call__")
            return self.call(m, args, kwargs)
        if isinstance(fn, (SAny, SRef)):
            key = "call:%s" % (fn.tag if isinstance(fn, SAny) and fn.tag else "value")
            if key in self.calls:
                return self.calls[key](self, fn, *args, **kwargs)
            raise Unsupported("call of opaque value without a call-out contract (%s)" % key)
        # real Python callables
        name = getattr(fn, "__qualname__", None) or getattr(fn, "__name__", None) or repr(fn)
        mod = getattr(fn, "__module__", None)
        if isinstance(mod, str) and (mod.startswith("pyvc.") or mod.startswith("contracts.")):
            return fn(*args, **kwargs)  # operations of the symbolic value classes / sidecar helpers run natively
        for key in ("%s.%s" % (mod, name), name):
            if key in self.calls:
                if self.calls[key] == "native":  # the contract vouches for running this callable natively
                    return fn(*args, **kwargs)
                if getattr(self.calls[key], "wants_receiver", False) and isinstance(fn, types.MethodType):
                    return self.calls[key](self, fn.__self__, *args, **kwargs)  # bound method of a real object
                return self.calls[key](self, *args, **kwargs)
        if isinstance(fn, types.MethodType) and not isinstance(fn.__self__, type):
            key = "%s.%s" % (type(fn.__self__).__name__, fn.__name__)  # bound method of a real object
            if key in self.calls:
                return self.calls[key](self, fn.__self__, *args, **kwargs)
        from . import models
        handled, value = models.builtin_call(self, fn, args, kwargs)
        if handled:
            return value
        if isinstance(fn, types.MethodType):
            return self.call(BoundMethod(fn.__func__, fn.__self__, fn.__name__), args, kwargs)
        if isinstance(fn, type):
            return self.instantiate(fn, args, kwargs)
        if isinstance(fn, types.FunctionType) or hasattr(fn, "__wrapped__"):
            pf = pyfunc_of(fn)
            if pf is not None:
                pf = self.overrides.get(pf.qualname, pf)
                if not core.deep_sym(args) and not core.deep_sym(kwargs) and self._pure_module(fn):
                    return fn(*args, **kwargs)
                return self.run_function(pf, args, kwargs)
        if not core.deep_sym(args) and not core.deep_sym(kwargs) and models.is_safe_native(fn):
            return fn(*args, **kwargs)
        raise Unsupported("call of %r with symbolic arguments has no model" % (fn,))

    def _pure_module(self, fn):
        return False

    def instantiate(self, cls, args, kwargs):
        key = cls.__name__
        if key in self.calls:
            return self.calls[key](self, *args, **kwargs)
        if issubclass(cls, BaseException):
            # exceptions are real objects; symbolic arguments are only stored
            try:
                return cls(*args, **kwargs)
            except Unsupported:
                raise
            except Exception:
                e = cls.__new__(cls)
                e.args = tuple(args)
                return e
        if not core.deep_sym(args) and not core.deep_sym(kwargs):
            from . import models
            if models.is_safe_native(cls):
                return cls(*args, **kwargs)
        init = None
        for k in cls.__mro__:
            if "__init__" in k.__dict__:
                init = k.__dict__["__init__"]
                break
        obj = SObj(cls)
        if init is not None and isinstance(init, types.FunctionType):
            self.call(BoundMethod(init, obj, "__init__"), args, kwargs)
            return obj
        if init is object.__init__ or init is None:
            return obj
        raise Unsupported("instantiation of %s" % cls.__name__)

    def run_function(self, pf: PyFunc, args, kwargs):
        node = pf.node
        self.depth += 1
        if self.depth > self.MAX_DEPTH:
            self.depth -= 1
            raise Unsupported("call depth exceeded at %s" % pf.qualname)
        try:
            a = node.args
            body = node.body if not isinstance(node, ast.Lambda) else [node.body]
            local = assigned_names(body) if not isinstance(node, ast.Lambda) else set()
            params = [p.arg for p in a.posonlyargs + a.args]
            local |= set(params) | {p.arg for p in a.kwonlyargs}
            if a.vararg:
                local.add(a.vararg.arg)
            if a.kwarg:
                local.add(a.kwarg.arg)
            env = Env(pf.closure, local)
            env.func = pf
            # defaults
            if pf.defaults is not None:
                defaults = list(pf.defaults)
            else:
                denv = pf.closure or Env(None)
                defaults = [self.eval(d, denv, pf.globs) for d in a.defaults]
            nparams = len(params)
            if len(args) > nparams and not a.vararg:
                raise TypeError("%s() takes %d positional arguments but %d were given" % (pf.name, nparams, len(args)))
            for i, p in enumerate(params):
                if i < len(args):
                    env.vars[p] = args[i]
                elif p in kwargs:
                    env.vars[p] = kwargs.pop(p)
                else:
                    j = i - (nparams - len(defaults))
                    if j < 0:
                        raise TypeError("%s() missing required argument %r" % (pf.name, p))
                    env.vars[p] = defaults[j]
            if a.vararg:
                env.vars[a.vararg.arg] = tuple(args[nparams:])
            for p, d in zip(a.kwonlyargs, a.kw_defaults):
                if p.arg in kwargs:
                    env.vars[p.arg] = kwargs.pop(p.arg)
                elif pf.kwdefaults and p.arg in pf.kwdefaults:
                    env.vars[p.arg] = pf.kwdefaults[p.arg]
                elif d is not None:
                    env.vars[p.arg] = self.eval(d, pf.closure or Env(None), pf.globs)
                else:
                    raise TypeError("missing keyword-only argument %r" % p.arg)
            if a.kwarg:
                env.vars[a.kwarg.arg] = dict(kwargs)
            elif kwargs:
                raise TypeError("%s() got unexpected keyword arguments %r" % (pf.name, sorted(kwargs)))
            if isinstance(node, ast.Lambda):
                return self.eval(node.body, env, pf.globs)
            for n in ast.walk(node):
                if isinstance(n, (ast.Yield, ast.YieldFrom, ast.Await)) and self._owner(node, n):
                    return self.run_generator(pf, env)
            try:
                self.exec_block(node.body, env, pf.globs)
            except _Return as r:
                return r.value
            return None
        finally:
            self.depth -= 1

    def _owner(self, fnode, target):
        """True if `target` belongs to fnode itself rather than a nested def."""
        stack = list(ast.iter_child_nodes(fnode))
        while stack:
            n = stack.pop()
            if n is target:
                return True
            if isinstance(n, (ast.FunctionDef, ast.AsyncFunctionDef, ast.Lambda, ast.ClassDef)):
                continue
            stack.extend(ast.iter_child_nodes(n))
        return False

    def run_generator(self, pf, env):
        """A generator consumed eagerly: its yields are collected in a list
        (sound only for generators without side effects observable between
        yields; used for tokenizers consumed by a for loop)."""
        out: List[Any] = []
        env.vars["$yield"] = out
        try:
            self.exec_block(pf.node.body, env, pf.globs)
        except _Return:
            pass
        return out

    # ------------------------------------------------------------------
    # statements

    def exec_block(self, stmts, env, globs):
        for s in stmts:
            self.exec_stmt(s, env, globs)

    def exec_stmt(self, s, env, globs):
        self.steps += 1
        if self.steps > 200000:
            raise core.PathLimit("step budget exhausted")
        m = getattr(self, "s_" + type(s).__name__, None)
        if m is None:
            raise Unsupported("statement %s (line %d)" % (type(s).__name__, s.lineno))
        return m(s, env, globs)

    def s_Expr(self, s, env, globs):
        if isinstance(s.value, ast.Constant):
            return  # docstring
        if isinstance(s.value, (ast.Yield,)):
            v = self.eval(s.value.value, env, globs) if s.value.value else None
            env.lookup("$yield").append(v)
            return
        self.eval(s.value, env, globs)

    def s_Pass(self, s, env, globs):
        pass

    def s_Global(self, s, env, globs):
        env.globals_decl |= set(s.names)

    def s_Nonlocal(self, s, env, globs):
        env.nonlocals |= set(s.names)

    def s_Import(self, s, env, globs):
        for a in s.names:
            mod = importlib.import_module(a.name)
            if a.asname:
                env.vars[a.asname] = mod
            else:
                env.vars[a.name.split(".")[0]] = importlib.import_module(a.name.split(".")[0])

    def s_ImportFrom(self, s, env, globs):
        base = s.module or ""
        if s.level:
            pkg = globs.get("__package__") or globs.get("__name__", "").rpartition(".")[0]
            parts = pkg.split(".")
            if s.level > 1:
                parts = parts[: -(s.level - 1)]
            base = ".".join(parts + ([s.module] if s.module else []))
        mod = importlib.import_module(base)
        for a in s.names:
            try:
                v = getattr(mod, a.name)
            except AttributeError:
                v = importlib.import_module(base + "." + a.name)
            env.vars[a.asname or a.name] = v

    def s_Assign(self, s, env, globs):
        v = self.eval(s.value, env, globs)
        for t in s.targets:
            self.assign(t, v, env, globs)

    def s_AnnAssign(self, s, env, globs):
        if s.value is not None:
            self.assign(s.target, self.eval(s.value, env, globs), env, globs)

    def s_AugAssign(self, s, env, globs):
        load = _as_load(s.target)
        cur = self.eval(load, env, globs)
        rhs = self.eval(s.value, env, globs)
        if isinstance(cur, (list, SList)) and isinstance(s.op, ast.Add):
            if isinstance(cur, list) and isinstance(rhs, (list, tuple)):
                cur.extend(rhs)
                v = cur
            else:
                v = self.binop(s.op, cur, rhs)
        else:
            v = self.binop(s.op, cur, rhs)
        self.assign(s.target, v, env, globs)

    def s_Delete(self, s, env, globs):
        for t in s.targets:
            if isinstance(t, ast.Name):
                sc = env.find_scope(t.id)
                if sc is None or t.id not in sc.vars:
                    raise NameError(t.id)
                del sc.vars[t.id]
            elif isinstance(t, ast.Attribute):
                o = self.eval(t.value, env, globs)
                delattr(o, self.mangled(t.attr, env, globs))
            elif isinstance(t, ast.Subscript):
                o = self.eval(t.value, env, globs)
                idx = self.eval_index(t.slice, env, globs)
                if isinstance(o, (SSeq, bytearray)) and isinstance(idx, slice):
                    # del buf[a:b] on a bytearray held as an (immutable) sequence value: rebind the holder
                    s0 = o if isinstance(o, SSeq) else SSeq(core.seq_term(bytes(o)), "bytes")
                    if isinstance(o, bytearray) and not any(is_sym(x) for x in (idx.start, idx.stop)):
                        del o[idx]
                    else:
                        n = z3.Length(s0.term)
                        lo, ln = core.slice_bounds(idx, n)
                        new = core._seq_value(z3.Concat(z3.SubSeq(s0.term, 0, lo), z3.SubSeq(s0.term, lo + ln, n - lo - ln)),
                                              "bytes", s0.ascii)
                        self.assign(_as_store(t.value), new, env, globs)
                    continue
                self.del_item(o, idx, t, env, globs)
            else:
                raise Unsupported("del target")

    def del_item(self, o, idx, t, env, globs):
        if isinstance(o, SList):
            n = z3.Length(o.seq)
            if isinstance(idx, slice):
                lo, ln = core.slice_bounds(idx, n)
                o.seq = z3.simplify(z3.Concat(z3.SubSeq(o.seq, 0, lo), z3.SubSeq(o.seq, lo + ln, n - lo - ln)))
                return
            if isinstance(idx, int) and idx == 0:
                if not ctx().decide(n > 0):
                    raise IndexError("list assignment index out of range")
                o.seq = z3.simplify(z3.SubSeq(o.seq, 1, n - 1))
                return
            raise Unsupported("del on symbolic list index")
        if isinstance(o, SObj) and "__delitem__" in dir(o._cls or object):
            return self.call(self.getattr(o, "__delitem__"), [idx])
        if is_sym(idx) or is_sym(o):
            raise Unsupported("del with symbolic operands")
        del o[idx]

    def s_Return(self, s, env, globs):
        raise _Return(self.eval(s.value, env, globs) if s.value is not None else None)

    def s_Break(self, s, env, globs):
        raise _Break()

    def s_Continue(self, s, env, globs):
        raise _Continue()

    def s_If(self, s, env, globs):
        if self.truth(self.eval(s.test, env, globs)):
            self.exec_block(s.body, env, globs)
        else:
            self.exec_block(s.orelse, env, globs)

    def s_Assert(self, s, env, globs):
        if not self.truth(self.eval(s.test, env, globs)):
            msg = self.eval(s.msg, env, globs) if s.msg is not None else None
            raise AssertionError(msg)

    def s_Raise(self, s, env, globs):
        if s.exc is None:
            cur = env_lookup_default(env, "$exc", None)
            if cur is None:
                raise RuntimeError("No active exception to reraise")
            raise cur
        e = self.eval(s.exc, env, globs)
        if isinstance(e, type) and issubclass(e, BaseException):
            e = e()
        if not isinstance(e, BaseException):
            raise Unsupported("raise of non-exception value %r" % (e,))
        if s.cause is not None:
            c = self.eval(s.cause, env, globs)
            raise e from c
        raise e

    def s_Try(self, s, env, globs):
        try:
            try:
                self.exec_block(s.body, env, globs)
            except (_Return, _Break, _Continue, core.Infeasible, core.Cut, Unsupported, core.PathLimit):
                raise
            except BaseException as e:
                if isinstance(e, (KeyboardInterrupt, SystemExit, MemoryError, RecursionError)):
                    raise
                for h in s.handlers:
                    if h.type is None:
                        match = True
                    else:
                        t = self.eval(h.type, env, globs)
                        match = isinstance(e, t)
                    if match:
                        if h.name:
                            env.vars[h.name] = e
                        saved = env.vars.get("$exc")
                        env.vars["$exc"] = e
                        try:
                            self.exec_block(h.body, env, globs)
                        finally:
                            env.vars["$exc"] = saved
                            if h.name:
                                env.vars.pop(h.name, None)
                        break
                else:
                    raise
            else:
                self.exec_block(s.orelse, env, globs)
        finally:
            if s.finalbody:
                self.exec_block(s.finalbody, env, globs)

    def s_With(self, s, env, globs):
        if len(s.items) != 1:
            raise Unsupported("with: multiple items")
        item = s.items[0]
        cm = self.eval(item.context_expr, env, globs)
        enter = self.getattr(cm, "__enter__")
        v = self.call(enter, [])
        if item.optional_vars is not None:
            self.assign(item.optional_vars, v, env, globs)
        try:
            self.exec_block(s.body, env, globs)
        except (_Return, _Break, _Continue) as cf:
            self.call(self.getattr(cm, "__exit__"), [None, None, None])
            raise
        except (core.Infeasible, core.Cut, Unsupported, core.PathLimit):
            raise
        except BaseException as e:
            if isinstance(e, (KeyboardInterrupt, SystemExit, MemoryError, RecursionError)):
                raise
            sup = self.call(self.getattr(cm, "__exit__"), [type(e), e, e.__traceback__])
            if not self.truth(sup):
                raise
        else:
            self.call(self.getattr(cm, "__exit__"), [None, None, None])

    def s_FunctionDef(self, s, env, globs):
        f = PyFunc(s, globs, env, s.name, getattr(getattr(env, "func", None), "qualname", "?") + "." + s.name,
                   getattr(getattr(env, "func", None), "filename", None))
        f.defaults = tuple(self.eval(d, env, globs) for d in s.args.defaults)
        f.kwdefaults = {p.arg: self.eval(d, env, globs) for p, d in zip(s.args.kwonlyargs, s.args.kw_defaults)
                        if d is not None}
        v: Any = f
        for dec in reversed(s.decorator_list):
            d = self.eval(dec, env, globs)
            key = getattr(d, "__name__", None)
            if key in ("wraps",) or getattr(d, "__qualname__", "") .startswith("wraps"):
                continue
            v = self.call(d, [v])
        env.vars[s.name] = v

    # loops ------------------------------------------------------------

    def loop_key(self, s, env):
        fn = getattr(_func_env(env), "func", None)
        q = fn.qualname if fn else "?"
        # ordinal of this loop within its function, in source order
        ordinal = 0
        if fn is not None:
            k = 0
            for n in ast.walk(fn.node):
                if isinstance(n, (ast.While, ast.For)):
                    if n is s:
                        ordinal = k
                        break
                    k += 1
            loops = sorted([n for n in ast.walk(fn.node) if isinstance(n, (ast.While, ast.For))],
                           key=lambda n: (n.lineno, n.col_offset))
            ordinal = loops.index(s)
        return "%s#%d" % (q, ordinal)

    def s_While(self, s, env, globs):
        key = self.loop_key(s, env)
        spec = self.loops.get(key)
        if spec is None or spec.unroll:
            limit = spec.unroll if spec else 64
            n = 0
            while True:
                t = self.eval(s.test, env, globs)
                if not is_sym(t):
                    if not t:
                        break
                else:
                    if spec is None:
                        raise Unsupported("loop %s has a symbolic condition and no invariant" % key)
                    if not self.truth(t):
                        break
                n += 1
                if n > limit:
                    if spec and spec.unroll:
                        # unwinding assertion: the loop must not be able to run longer than the bound under
                        # the scenario's precondition (otherwise the bounded unrolling would hide paths)
                        ctx().oblige("%s/loop/%s/unwind-%d" % (self.tag, key, limit), False, kind="unwind")
                        raise core.Cut()
                    raise Unsupported("loop %s: concrete unrolling exceeded %d" % (key, limit))
                try:
                    self.exec_block(s.body, env, globs)
                except _Break:
                    return
                except _Continue:
                    continue
            self.exec_block(s.orelse, env, globs)
            return
        self.inductive_loop(s, env, globs, key, spec, kind="while")

    def inductive_loop(self, s, env, globs, key, spec, kind, iter_state=None):
        c = ctx()
        ns = lambda: NS(env, dict(iter_state or {}, **{g: v for g, v in c.ghost.items() if isinstance(g, str)}))
        # (1) invariant holds initially
        c.oblige("%s/loop/%s/init" % (self.tag, key), self._inv(spec, ns()), kind="loop-init")
        # (2) havoc
        names, attrs = loop_targets(s)
        for m in spec.modifies:
            (attrs if "." in m else names).add(m)
        for m in spec.frozen:  # syntactically assigned in the body, but only on paths the contract's rely excludes
            names.discard(m)
            attrs.discard(m)
        for nm in sorted(names):
            if nm in spec.types:
                self._set_name(env, nm, spec.types[nm](c.fresh_name(nm)))
                continue
            try:
                cur = env.lookup(nm)
            except KeyError:
                continue
            self._set_name(env, nm, self.havoc_like(cur, nm, spec))
        for p in sorted(attrs):
            base, _, attr = p.rpartition(".")
            try:
                o = self._eval_path(base, env)
                cur = self.getattr(o, attr)
            except (KeyError, AttributeError):
                continue
            if p in spec.types:
                newv = spec.types[p](c.fresh_name(p))
            else:
                newv = self.havoc_like(cur, p, spec)
            setattr(o, attr, newv)
        for g in spec.ghost:
            if g in spec.types:
                c.ghost[g] = spec.types[g](c.fresh_name("ghost_" + g))
            else:
                c.ghost[g] = self.havoc_like(c.ghost[g], "ghost_" + g, spec)
        if iter_state is not None:
            iter_state["havoc"]()
        # (3) assume invariant at an arbitrary iteration
        c.assume(as_bool_term(self._inv(spec, ns())))
        variant0 = spec.decreases(ns()) if spec.decreases else None
        if kind == "while":
            enter = self.truth(self.eval(s.test, env, globs))
        else:
            enter = iter_state["next"]()
        if enter and spec.have is not None:
            for k, fact in enumerate(spec.have(ns())):
                c.oblige("%s/loop/%s/have/%d" % (self.tag, key, k), fact, kind="have")
                c.assume(as_bool_term(fact))
        if enter:
            try:
                self.exec_block(s.body, env, globs)
            except _Break:
                return
            except _Continue:
                pass
            if iter_state is not None:
                iter_state["advance"]()
            if spec.hints is not None:
                for Lm, largs in spec.hints(ns()):
                    Lm.use(**largs)
            c.oblige("%s/loop/%s/preserved" % (self.tag, key), self._inv(spec, ns()), kind="loop-preserved")
            if variant0 is not None:
                v1 = spec.decreases(ns())
                if isinstance(variant0, tuple):  # lexicographic, every component bounded below by 0
                    dec, eq = False, True
                    for x0, x1 in zip(variant0, v1):
                        dec = bor(dec, band(eq, x1 < x0))
                        eq = band(eq, x1 == x0)
                    ok = band(*([x0 >= 0 for x0 in variant0] + [dec]))
                else:
                    ok = band(variant0 >= 0, v1 < variant0)
                c.oblige("%s/loop/%s/decreases" % (self.tag, key), ok, kind="loop-variant")
            raise core.Cut()
        self.exec_block(s.orelse, env, globs)

    def _inv(self, spec, ns):
        try:
            r = spec.inv(ns)
        except (AttributeError, KeyError, NameError) as e:
            # the invariant names a local variable / field that the code no longer has (renamed, removed): the
            # *contract* is out of date; that is reported as undecided, never as a violation of the code
            raise Unsupported("the loop invariant refers to something the code does not have: %r" % (e,))
        if isinstance(r, (tuple, list)):
            r = band(*r)
        return r

    def havoc_like(self, cur, name, spec=None):
        c = ctx()
        nm = c.fresh_name(name.replace(".", "_"))
        if isinstance(cur, bool) or isinstance(cur, SBool):
            return core.fresh_bool(nm)
        if isinstance(cur, (int, SInt)):
            return core.fresh_int(nm)
        if isinstance(cur, (float, SReal)):
            return core.fresh_real(nm)
        if isinstance(cur, (bytes, bytearray)) or (isinstance(cur, SSeq) and cur.kind == "bytes"):
            return core.fresh_seq(nm, "bytes")
        if isinstance(cur, str) or isinstance(cur, SSeq):
            return core.fresh_seq(nm, "str")
        if isinstance(cur, SList):
            t = z3.Const(nm, cur.seq.sort())
            return SList(t, cur.elem)
        if isinstance(cur, SAny):
            return core.fresh_any(nm)
        if isinstance(cur, core.SChunks):
            return core.SChunks(core.fresh_seq(nm, cur.kind), cur.kind)
        raise Unsupported("cannot havoc %s of type %s; declare its type in the loop spec" % (name, type(cur).__name__))

    def _set_name(self, env, nm, v):
        sc = env.find_scope(nm) or env
        sc.vars[nm] = v

    def _eval_path(self, path, env):
        parts = path.split(".")
        o = env.lookup(parts[0])
        for p in parts[1:]:
            o = self.getattr(o, p)
        return o

    def s_For(self, s, env, globs):
        it = self.eval(s.iter, env, globs)
        key = self.loop_key(s, env)
        spec = self.loops.get(key)
        if isinstance(it, (SSeq, SList)):
            if spec is None:
                raise Unsupported("for-loop %s over a symbolic sequence needs an invariant" % key)
            return self.for_symbolic(s, env, globs, key, spec, it)
        if isinstance(it, SInt) or is_sym(it):
            raise Unsupported("for-loop over %r" % type(it))
        if isinstance(it, dict):
            items = list(it)
        elif isinstance(it, SymIter):
            if spec is None:
                raise Unsupported("for-loop %s over a symbolic range needs an invariant" % key)
            return self.for_symbolic(s, env, globs, key, spec, it)
        elif hasattr(it, "__next__") and not isinstance(it, (list, tuple)):
            # an iterator object (iter(...)): consumed one element at a time, because the loop body may itself call
            # next() on it (tokenizers that read an escaped character ahead)
            items = it
        elif type(it) is list:
            # CPython's list iterator: by index against the live length, so a body that removes or appends elements
            # sees what it would see natively (skipped / extra elements)
            def live(lst=it):
                k = 0
                while k < len(lst):
                    yield lst[k]
                    k += 1
            items = live()
        else:
            try:
                items = list(it)
            except TypeError:
                raise Unsupported("for-loop over %r" % type(it))
        for x in items:
            self.assign(s.target, x, env, globs)
            try:
                self.exec_block(s.body, env, globs)
            except _Break:
                return
            except _Continue:
                continue
        self.exec_block(s.orelse, env, globs)

    def for_symbolic(self, s, env, globs, key, spec, it):
        """for x in <symbolic sequence/range>: ghost index `_i` (exposed to the
        invariant as v._i together with v._seq)."""
        c = ctx()
        st: Dict[str, Any] = {"_i": 0, "_seq": it}
        if isinstance(it, SymRange):
            # range(start, stop, step) with step > 0: element _i is start + _i*step and exists iff it is
            # < stop; stated without the division that a count would need
            if not self.truth(it.step > 0):
                raise Unsupported("symbolic range with a non-positive step")

            def havoc_r():
                st["_i"] = core.fresh_int(c.fresh_name("_i"), lo=0)
                # every earlier element existed
                c.assume(as_bool_term(bor(st["_i"] == 0, it.at(st["_i"] - 1) < it.stop)))

            def nxt_r():
                x = it.at(st["_i"])
                if self.truth(x < it.stop):
                    self.assign(s.target, x, env, globs)
                    return True
                return False

            def advance_r():
                st["_i"] = st["_i"] + 1

            st["havoc"], st["next"], st["advance"] = havoc_r, nxt_r, advance_r
            return self.inductive_loop(s, env, globs, key, spec, kind="for", iter_state=st)
        if isinstance(it, SymIter):
            n = it.count()
        else:
            n = slen(it)

        def havoc():
            st["_i"] = core.fresh_int(c.fresh_name("_i"), lo=0)
            c.assume(as_bool_term(band(st["_i"] >= 0, st["_i"] <= n)))

        def nxt():
            if self.truth(st["_i"] < n):
                x = it.at(st["_i"]) if isinstance(it, SymIter) else it[st["_i"]]
                self.assign(s.target, x, env, globs)
                return True
            return False

        def advance():
            st["_i"] = st["_i"] + 1

        st["havoc"], st["next"], st["advance"] = havoc, nxt, advance
        self.inductive_loop(s, env, globs, key, spec, kind="for", iter_state=st)

    # ------------------------------------------------------------------
    # assignment

    def assign(self, t, v, env, globs):
        if isinstance(t, ast.Name):
            if t.id in env.globals_decl:
                globs[t.id] = v
                return
            if t.id in env.nonlocals:
                sc = env.parent.find_scope(t.id) if env.parent else None
                if sc is None:
                    raise NameError(t.id)
                sc.vars[t.id] = v
                return
            env.vars[t.id] = v
        elif isinstance(t, ast.Attribute):
            o = self.eval(t.value, env, globs)
            self.setattr(o, self.mangled(t.attr, env, globs), v)
        elif isinstance(t, (ast.Tuple, ast.List)):
            if isinstance(v, (SSeq, SList)):
                n = len(t.elts)
                if not self.truth(slen(v) == n):
                    raise ValueError("unpack length mismatch")
                vals = [v[i] for i in range(n)]
            elif isinstance(v, SRef) and ("unpack:%s" % v.cls) in self.calls:
                # an element of a symbolic list that the code treats as a tuple (dict.items()): the contract says
                # what its components are
                vals = list(self.calls["unpack:%s" % v.cls](self, v))
            else:
                vals = list(v)
            if any(isinstance(e, ast.Starred) for e in t.elts):
                raise Unsupported("starred assignment")
            if len(vals) != len(t.elts):
                raise ValueError("not enough/too many values to unpack (expected %d, got %d)" % (len(t.elts), len(vals)))
            for e, x in zip(t.elts, vals):
                self.assign(e, x, env, globs)
        elif isinstance(t, ast.Subscript):
            o = self.eval(t.value, env, globs)
            idx = self.eval_index(t.slice, env, globs)
            self.set_item(o, idx, v)
        else:
            raise Unsupported("assignment target %s" % type(t).__name__)

    def set_item(self, o, idx, v):
        from . import models
        if isinstance(o, models.SDict):
            return o.set(idx, v)
        if isinstance(o, SObj):
            return self.call(self.getattr(o, "__setitem__"), [idx, v])
        if isinstance(o, list) and isinstance(idx, int):
            o[idx] = v
            return
        if isinstance(o, dict) and not is_sym(idx):
            o[idx] = v
            return
        if isinstance(o, list) and isinstance(idx, SInt):
            # store under symbolic index into a concrete-length list
            n = len(o)
            for k in range(n):
                o[k] = core.ite(idx == k, v, o[k]) if _ite_able(v, o[k]) else self._fork_store(o, k, idx, v)
            return
        if type(o).__module__.startswith("contracts."):
            o[idx] = v  # sidecar model object
            return
        raise Unsupported("item assignment on %r[%r]" % (type(o).__name__, type(idx).__name__))

    def _fork_store(self, o, k, idx, v):
        return v if self.truth(idx == k) else o[k]

    def setattr(self, o, name, v):
        if isinstance(o, SObj):
            cls = o._cls
            if cls is not None:
                for k in cls.__mro__:
                    d = k.__dict__.get(name)
                    if isinstance(d, property):
                        if d.fset is None:
                            raise AttributeError("can't set attribute %s" % name)
                        return self.call(BoundMethod(d.fset, o, name), [v])
            o._fields[name] = v
            return
        if isinstance(o, SRef):
            return self.ref_set(o, name, v)
        if isinstance(o, (SV, SList)):
            raise AttributeError("cannot set attribute %r on %r" % (name, o))
        setattr(o, name, v)

    # ------------------------------------------------------------------
    # expressions

    def truth(self, v) -> bool:
        if isinstance(v, bool):
            return v
        if isinstance(v, SObj):
            cls = v._cls
            if cls is not None:
                for k in cls.__mro__:
                    if "__bool__" in k.__dict__:
                        return self.truth(self.call(BoundMethod(k.__dict__["__bool__"], v, "__bool__"), []))
                    if "__len__" in k.__dict__:
                        return self.truth(self.call(BoundMethod(k.__dict__["__len__"], v, "__len__"), []) != 0)
            return True
        if isinstance(v, (SV, SList)):
            if isinstance(v, SAny):
                key = "truth:%s" % (v.tag or "value")
                if key in self.calls:
                    return self.truth(self.calls[key](self, v))
                raise Unsupported("truth value of opaque value")
            if isinstance(v, SRef):
                return True
            return ctx().decide(as_bool_term(v))
        from . import models
        if isinstance(v, models.SDict):
            return self.truth(v.nonempty())
        return bool(v)

    def eval(self, e, env, globs):
        m = getattr(self, "e_" + type(e).__name__, None)
        if m is None:
            raise Unsupported("expression %s (line %d)" % (type(e).__name__, getattr(e, "lineno", 0)))
        return m(e, env, globs)

    def e_Constant(self, e, env, globs):
        return e.value

    def e_Name(self, e, env, globs):
        try:
            return env.lookup(e.id)
        except KeyError:
            pass
        sc = env.find_scope(e.id)
        if sc is not None and e.id not in env.globals_decl:
            raise UnboundLocalError(e.id)
        if e.id in globs:
            return globs[e.id]
        if hasattr(builtins, e.id):
            return getattr(builtins, e.id)
        raise NameError(e.id)

    def mangled(self, attr, env, globs):
        """Private name mangling: `__x` written inside a class body's functions means `_Class__x`."""
        if not attr.startswith("__") or attr.endswith("__"):
            return attr
        e = env
        func = None
        while e is not None and func is None:
            func = getattr(e, "func", None)
            e = e.parent
        if func is None:
            return attr
        parts = (func.qualname or "").split(".")
        cur, cls = None, None
        for k, part in enumerate(parts[:-1]):
            if part == "<locals>":
                break
            cur = globs.get(part) if k == 0 else getattr(cur, part, None)
            if isinstance(cur, type):
                cls = cur
            else:
                break
        if cls is None:
            return attr
        return "_%s%s" % (cls.__name__.lstrip("_"), attr)

    def e_Attribute(self, e, env, globs):
        o = self.eval(e.value, env, globs)
        return self.getattr(o, self.mangled(e.attr, env, globs))

    def getattr(self, o, name):
        if self.attr_hook is not None:
            handled, v = self.attr_hook(self, o, name)
            if handled:
                return v
        if isinstance(o, SObj):
            f = o._fields
            if name in f:
                return f[name]
            if name == "__class__":
                return o._cls
            if name == "__dict__":
                return f
            cls = o._cls
            if cls is not None:
                for k in cls.__mro__:
                    if name in k.__dict__:
                        d = k.__dict__[name]
                        if isinstance(d, types.FunctionType):
                            return BoundMethod(d, o, name, k)
                        if isinstance(d, property):
                            return self.call(BoundMethod(d.fget, o, name, k), [])
                        if isinstance(d, staticmethod):
                            return d.__func__
                        if isinstance(d, classmethod):
                            return BoundMethod(d.__func__, cls, name, k)
                        if hasattr(d, "__get__") and not isinstance(d, (int, str, bytes, float, tuple, frozenset, type(None), bool, dict, list, set)):
                            if type(d).__name__ in ("member_descriptor", "getset_descriptor"):
                                raise AttributeError(name)
                            if type(d).__name__ in ("_Attribute", "Attribute"):
                                raise AttributeError(name)
                            if type(d).__name__ == "Logger" and type(d).__module__.startswith("twisted.logger"):
                                return d  # class-level Logger descriptor: logging calls are call-outs / no-ops
                            if callable(d) and hasattr(d, "__wrapped__"):
                                return BoundMethod(d, o, name, k)
                            raise Unsupported("descriptor %s.%s of type %s" % (k.__name__, name, type(d).__name__))
                        return d
                if any("__getattr__" in k.__dict__ for k in cls.__mro__):
                    raise Unsupported("__getattr__ fallback on %s for %s" % (cls.__name__, name))
            if o._opaque:
                return Opaque(o, name)
            if name in getattr(o, "__dict__", {}).get("_deleted", ()):
                raise AttributeError("%s has no attribute %r" % (o._name, name))
            raise core.UnmodelledAttribute("%s has no attribute %r" % (o._name, name))
        if isinstance(o, SSeq):
            return SeqMethod(o, name)
        if isinstance(o, (bytes, str, bytearray)):
            return SeqMethod(o, name)
        if isinstance(o, SRef):
            return self.ref_get(o, name)
        if isinstance(o, SList):
            if name in ("append", "pop", "remove", "copy", "reverse"):
                return getattr(o, name)
            from . import models
            return models.slist_method(self, o, name)
        if isinstance(o, core.SChunks):
            return getattr(o, name)
        if isinstance(o, SV):
            raise Unsupported("attribute %r of %r" % (name, o))
        if isinstance(o, BoundMethod) and name in ("__func__", "__self__", "__name__"):
            return {"__func__": o.fn, "__self__": o.recv, "__name__": o.name}[name]
        if (type(o).__module__ or "").startswith("contracts.") and not hasattr(o, name):
            # a contract-level model object (dict / list / stream model) that does not model this operation: the code
            # has left the modelled fragment -- undecided, never an AttributeError blamed on the code
            raise Unsupported("the model %s of the contract does not provide %r" % (type(o).__name__, name))
        return getattr(o, name)

    # symbolic references: fields live in heap functions declared by the contract
    def ref_get(self, ref, name):
        key = "ref:%s.%s" % (ref.cls, name)
        if key in self.calls:
            return self.calls[key](self, ref)
        heap = ctx().ghost.get("heap")
        if heap is not None and (ref.cls, name) in heap.fields:
            return heap.read(ref, name)
        return BoundMethod(None, ref, name)

    def ref_set(self, ref, name, v):
        heap = ctx().ghost.get("heap")
        if heap is not None and (ref.cls, name) in heap.fields:
            return heap.write(ref, name, v)
        raise Unsupported("write to field %s of symbolic reference" % name)

    def e_BinOp(self, e, env, globs):
        a = self.eval(e.left, env, globs)
        b = self.eval(e.right, env, globs)
        return self.binop(e.op, a, b)

    def binop(self, op, a, b):
        from . import models
        f = _BIN.get(type(op))
        if f is None:
            raise Unsupported("operator %s" % type(op).__name__)
        if isinstance(op, ast.Mod) and isinstance(a, (bytes, str, SSeq)):
            return models.percent_format(self, a, b)
        if isinstance(op, ast.Mult) and (isinstance(a, (bytes, str, SSeq)) or isinstance(b, (bytes, str, SSeq))) and (is_sym(a) or is_sym(b)):
            return models.seq_repeat(self, a, b)
        if isinstance(op, ast.Pow) and (is_sym(a) or is_sym(b)):
            if isinstance(b, int) and b >= 0:
                return a ** b
            if a == 2 and isinstance(b, SInt):
                if self.truth(b < 0):
                    raise Unsupported("negative symbolic exponent")
                return SInt(core.pow2(b.term))
            raise Unsupported("** with symbolic operands")
        if isinstance(a, SObj) or isinstance(b, SObj):
            return self.obj_binop(op, a, b)
        if isinstance(a, list) and isinstance(b, SList):
            return b.__radd__(a)
        return f(a, b)

    _DUNDER = {ast.Add: "add", ast.Sub: "sub", ast.Mult: "mul", ast.FloorDiv: "floordiv", ast.Div: "truediv",
               ast.Mod: "mod"}

    def obj_binop(self, op, a, b):
        nm = self._DUNDER.get(type(op))
        if nm is None:
            raise Unsupported("object operator")
        if isinstance(a, SObj):
            m = self._find_method(a, "__%s__" % nm)
            if m is not None:
                r = self.call(m, [b])
                if r is not NotImplemented:
                    return r
        if isinstance(b, SObj):
            m = self._find_method(b, "__r%s__" % nm)
            if m is not None:
                r = self.call(m, [a])
                if r is not NotImplemented:
                    return r
        raise TypeError("unsupported operand types")

    def _find_method(self, o, name):
        cls = o._cls
        if cls is None:
            return None
        for k in cls.__mro__:
            if name in k.__dict__ and isinstance(k.__dict__[name], types.FunctionType):
                return BoundMethod(k.__dict__[name], o, name, k)
        return None

    def e_UnaryOp(self, e, env, globs):
        v = self.eval(e.operand, env, globs)
        if isinstance(e.op, ast.Not):
            if isinstance(v, (SBool, SInt, SSeq, SList)) :
                return bnot(mk_bool(as_bool_term(v)))
            return not self.truth(v)
        if isinstance(e.op, ast.USub):
            return -v
        if isinstance(e.op, ast.UAdd):
            return +v
        if isinstance(e.op, ast.Invert):
            if is_sym(v):
                return -v - 1
            return ~v
        raise Unsupported("unary operator")

    def e_BoolOp(self, e, env, globs):
        # Python semantics: value of the deciding operand, short-circuit
        is_and = isinstance(e.op, ast.And)
        v = None
        for i, sub in enumerate(e.values):
            v = self.eval(sub, env, globs)
            if i == len(e.values) - 1:
                return v
            t = self.truth(v)
            if is_and and not t:
                return v
            if not is_and and t:
                return v
        return v

    def e_IfExp(self, e, env, globs):
        if self.truth(self.eval(e.test, env, globs)):
            return self.eval(e.body, env, globs)
        return self.eval(e.orelse, env, globs)

    def e_Compare(self, e, env, globs):
        left = self.eval(e.left, env, globs)
        result: Any = True
        for op, rnode in zip(e.ops, e.comparators):
            right = self.eval(rnode, env, globs)
            r = self.compare(op, left, right)
            if len(e.ops) == 1:
                return r
            if not self.truth(r):
                return False
            left = right
        return True

    def compare(self, op, a, b):
        from . import models
        if isinstance(op, ast.Is):
            return self.identical(a, b)
        if isinstance(op, ast.IsNot):
            return bnot(self.identical(a, b))
        if isinstance(op, ast.Eq):
            return self.equals(a, b)
        if isinstance(op, ast.NotEq):
            return bnot(self.equals(a, b))
        if isinstance(op, ast.In):
            return models.contains(self, b, a)
        if isinstance(op, ast.NotIn):
            return bnot(models.contains(self, b, a))
        f = _CMP[type(op)]
        if isinstance(a, SObj) or isinstance(b, SObj):
            names = {ast.Lt: ("__lt__", "__gt__"), ast.LtE: ("__le__", "__ge__"), ast.Gt: ("__gt__", "__lt__"),
                     ast.GtE: ("__ge__", "__le__")}[type(op)]
            if isinstance(a, SObj):
                m = self._find_method(a, names[0])
                if m is not None:
                    r = self.call(m, [b])
                    if r is not NotImplemented:
                        return r
            if isinstance(b, SObj):
                m = self._find_method(b, names[1])
                if m is not None:
                    r = self.call(m, [a])
                    if r is not NotImplemented:
                        return r
            raise TypeError("'%s' not supported between instances" % type(op).__name__)
        if isinstance(a, (SSeq,)) or isinstance(b, SSeq):
            return models.seq_compare(self, op, a, b)
        r = f(a, b)
        if r is NotImplemented:
            raise TypeError("unorderable types")
        return r

    def equals(self, a, b):
        if isinstance(a, SObj) and a is not b:
            m = self._find_method(a, "__eq__")
            if m is not None:
                r = self.call(m, [b])
                if r is not NotImplemented:
                    return r
        if isinstance(b, SObj) and a is not b:
            m = self._find_method(b, "__eq__")
            if m is not None:
                r = self.call(m, [a])
                if r is not NotImplemented:
                    return r
        return veq(a, b)

    def identical(self, a, b):
        if a is None or b is None:
            if a is None and b is None:
                return True
            other = b if a is None else a
            if isinstance(other, SAny):
                key = "isnone:%s" % (other.tag or "value")
                if key in self.calls:
                    return self.calls[key](self, other)
                return mk_bool(core.any_pred("is_None")(other.term))
            return False
        if isinstance(a, SRef) and isinstance(b, SRef):
            return mk_bool(a.term == b.term)
        if isinstance(a, (SAny,)) and isinstance(b, SAny):
            return mk_bool(a.term == b.term)
        if isinstance(a, bool) or isinstance(b, bool):
            if isinstance(a, (bool, SBool)) and isinstance(b, (bool, SBool)):
                return mk_bool(as_bool_term(a) == as_bool_term(b))
            return False
        if isinstance(a, SBool) and isinstance(b, SBool):
            return mk_bool(a.term == b.term)
        if isinstance(a, (SInt,)) or isinstance(b, SInt):
            # `is` on ints: used only for sentinel comparisons; treat as ==
            if isinstance(a, (int, SInt)) and isinstance(b, (int, SInt)):
                return veq(a, b)
            return False
        if isinstance(a, BoundMethod) and isinstance(b, BoundMethod):
            return a == b
        if is_sym(a) or is_sym(b):
            if isinstance(a, SSeq) and isinstance(b, SSeq):
                return veq(a, b)
            return False
        return a is b

    def e_Call(self, e, env, globs):
        fn = self.eval(e.func, env, globs)
        args: List[Any] = []
        for a in e.args:
            if isinstance(a, ast.Starred):
                v = self.eval(a.value, env, globs)
                if is_sym(v):
                    raise Unsupported("*args of symbolic sequence")
                args.extend(v)
            else:
                args.append(self.eval(a, env, globs))
        kwargs = {}
        for k in e.keywords:
            if k.arg is None:
                v = self.eval(k.value, env, globs)
                kwargs.update(v)
            else:
                kwargs[k.arg] = self.eval(k.value, env, globs)
        # typing.cast(T, x) -> x
        if getattr(fn, "__name__", None) == "cast" and getattr(fn, "__module__", None) == "typing":
            return args[1]
        return self.call(fn, args, kwargs)

    def e_Tuple(self, e, env, globs):
        return tuple(self._elts(e.elts, env, globs))

    def e_List(self, e, env, globs):
        return list(self._elts(e.elts, env, globs))

    def e_Set(self, e, env, globs):
        vals = self._elts(e.elts, env, globs)
        if core.deep_sym(vals):
            raise Unsupported("set display with symbolic elements")
        return set(vals)

    def _elts(self, elts, env, globs):
        out = []
        for x in elts:
            if isinstance(x, ast.Starred):
                v = self.eval(x.value, env, globs)
                if is_sym(v):
                    raise Unsupported("starred symbolic")
                out.extend(v)
            else:
                out.append(self.eval(x, env, globs))
        return out

    def e_Dict(self, e, env, globs):
        d = {}
        for k, v in zip(e.keys, e.values):
            if k is None:
                d.update(self.eval(v, env, globs))
            else:
                kk = self.eval(k, env, globs)
                if is_sym(kk):
                    raise Unsupported("dict display with symbolic key")
                d[kk] = self.eval(v, env, globs)
        return d

    def eval_index(self, sl, env, globs):
        if isinstance(sl, ast.Slice):
            lo = self.eval(sl.lower, env, globs) if sl.lower is not None else None
            hi = self.eval(sl.upper, env, globs) if sl.upper is not None else None
            st = self.eval(sl.step, env, globs) if sl.step is not None else None
            return slice(lo, hi, st)
        return self.eval(sl, env, globs)

    def e_Subscript(self, e, env, globs):
        o = self.eval(e.value, env, globs)
        idx = self.eval_index(e.slice, env, globs)
        return self.get_item(o, idx)

    def get_item(self, o, idx):
        from . import models
        if isinstance(o, (SSeq, SList)):
            return o[idx]
        if isinstance(o, models.SDict):
            return o.get_item(idx)
        if isinstance(o, SObj):
            return self.call(self.getattr(o, "__getitem__"), [idx])
        if isinstance(o, (bytes, str, bytearray, memoryview)):
            if isinstance(idx, slice):
                if any(is_sym(x) for x in (idx.start, idx.stop, idx.step)):
                    return SSeq(core.seq_term(o), core.kind_of(o))[idx]
                return o[idx]
            if is_sym(idx):
                return SSeq(core.seq_term(o), core.kind_of(o))[idx]
            return o[idx]
        if isinstance(o, (list, tuple)):
            if isinstance(idx, slice):
                if any(is_sym(x) for x in (idx.start, idx.stop, idx.step)):
                    raise Unsupported("symbolic slice of a concrete list")
                return o[idx]
            if isinstance(idx, SInt):
                n = len(o)
                if not self.truth(band(idx >= -n, idx < n)):
                    raise IndexError("list index out of range")
                for k in range(-n, n):
                    if self.truth(idx == k):
                        return o[k]
                raise core.Infeasible()
            return o[idx]
        if isinstance(o, dict):
            if is_sym(idx):
                for k in o:
                    if self.truth(veq(idx, k)):
                        return o[k]
                raise KeyError(idx)
            return o[idx]
        if is_sym(idx):
            if type(o).__module__.startswith("contracts."):
                return o[idx]  # sidecar model objects implement item access over symbolic indices themselves
            raise Unsupported("symbolic index into %r" % type(o))
        return o[idx]

    def e_Slice(self, e, env, globs):
        return self.eval_index(e, env, globs)

    def e_Lambda(self, e, env, globs):
        f = PyFunc(e, globs, env, "<lambda>", getattr(getattr(_func_env(env), "func", None), "qualname", "?") + ".<lambda>")
        f.defaults = tuple(self.eval(d, env, globs) for d in e.args.defaults)
        return f

    def e_JoinedStr(self, e, env, globs):
        parts = []
        symbolic = False
        for v in e.values:
            if isinstance(v, ast.Constant):
                parts.append(v.value)
            else:
                x = self.eval(v.value, env, globs)
                if isinstance(x, SInt) and v.conversion == -1:
                    from . import models
                    spec = self.eval(v.format_spec, env, globs) if v.format_spec is not None else ""
                    d = models.format_int(self, x, spec)
                    if d is not None:
                        parts.append(d)
                        continue
                if isinstance(x, SSeq) and x.kind == "str" and v.conversion == -1 and v.format_spec is None:
                    parts.append(x)
                    continue
                if core.deep_sym(x) or isinstance(x, (SObj, PyFunc, BoundMethod)):
                    symbolic = True
                    parts.append("<?>")
                else:
                    spec = self.eval(v.format_spec, env, globs) if v.format_spec is not None else ""
                    if v.conversion == ord("r"):
                        x = repr(x)
                    elif v.conversion == ord("s"):
                        x = str(x)
                    parts.append(format(x, spec))
        if symbolic:
            return MessageStr("".join(p if isinstance(p, str) else "<?>" for p in parts))
        s = ""
        for p in parts:
            s = s + p
        return s

    def e_FormattedValue(self, e, env, globs):
        return self.eval(e.value, env, globs)

    def e_ListComp(self, e, env, globs):
        return self._comp(e, env, globs, list)

    def e_GeneratorExp(self, e, env, globs):
        return self._comp(e, env, globs, list)

    def e_SetComp(self, e, env, globs):
        r = self._comp(e, env, globs, list)
        if core.deep_sym(r):
            raise Unsupported("set comprehension with symbolic elements")
        return set(r)

    def e_DictComp(self, e, env, globs):
        out = {}

        def emit(sub):
            k = self.eval(e.key, sub, globs)
            if is_sym(k):
                raise Unsupported("dict comprehension with symbolic key")
            out[k] = self.eval(e.value, sub, globs)

        self._comp_loop(e.generators, 0, Env(env), globs, emit)
        return out

    def _comp(self, e, env, globs, ctor):
        out = []
        self._comp_loop(e.generators, 0, Env(env), globs, lambda sub: out.append(self.eval(e.elt, sub, globs)))
        return ctor(out)

    def _comp_loop(self, gens, i, env, globs, emit):
        if i == len(gens):
            emit(env)
            return
        g = gens[i]
        it = self.eval(g.iter, env, globs)
        if is_sym(it) or isinstance(it, SymIter):
            raise Unsupported("comprehension over a symbolic sequence")
        for x in list(it):
            self.assign(g.target, x, env, globs)
            if all(self.truth(self.eval(c, env, globs)) for c in g.ifs):
                self._comp_loop(gens, i + 1, env, globs, emit)

    def e_Starred(self, e, env, globs):
        raise Unsupported("starred expression")

    def e_NamedExpr(self, e, env, globs):
        v = self.eval(e.value, env, globs)
        self.assign(e.target, v, env, globs)
        return v

    def e_Yield(self, e, env, globs):
        v = self.eval(e.value, env, globs) if e.value else None
        env.lookup("$yield").append(v)
        return None


class MessageStr(str):
    """A str whose content depended on symbolic data (only usable as a
    message: comparing or slicing it is outside the subset)."""

    def _no(self, *a, **k):
        raise Unsupported("content of a string formatted from symbolic data")

    __eq__ = _no
    __ne__ = _no
    __getitem__ = _no
    __contains__ = _no
    __hash__ = str.__hash__
    split = _no

    def encode(self, *a, **k):
        return MessageBytes(b"<?>")


class MessageBytes(bytes):
    """bytes counterpart of MessageStr (an encoded message text): may be passed on, not inspected"""

    def _no(self, *a, **k):
        raise Unsupported("content of a byte string formatted from symbolic data")

    __eq__ = _no
    __ne__ = _no
    __getitem__ = _no
    __contains__ = _no
    __hash__ = bytes.__hash__
    split = _no

    def decode(self, *a, **k):
        return MessageStr("<?>")


class SymIter:
    """Iterable of symbolic length: count() elements, at(i) the i-th."""


class SeqChunks(SymIter):
    """iterbytes(b): the one-byte slices of a bytes value."""

    def __init__(self, seq):
        self.seq = seq

    def count(self):
        return slen(self.seq)

    def at(self, i):
        return self.seq[i:i + 1] if not isinstance(self.seq, (bytes, str)) or is_sym(i) else self.seq[i:i + 1]


class SymRange(SymIter):
    def __init__(self, start, stop, step=1):
        self.start, self.stop, self.step = start, stop, step
        if not isinstance(step, int) or step <= 0:
            if not (isinstance(step, SInt)):
                raise Unsupported("range step")

    def count(self):
        d = self.stop - self.start
        if isinstance(self.step, int) and self.step == 1:
            return core.vmax(d, 0)
        return core.vmax((d + self.step - 1) // self.step, 0)

    def at(self, i):
        return self.start + i * self.step


def _as_store(t):
    import copy
    n = copy.copy(t)
    n.ctx = ast.Store()
    return n


def _as_load(t):
    import copy
    n = copy.copy(t)
    n.ctx = ast.Load()
    return n


def _ite_able(a, b):
    num = (int, SInt, SReal, float, bool, SBool)
    return (isinstance(a, num) and isinstance(b, num)) or (
        isinstance(a, (bytes, SSeq)) and isinstance(b, (bytes, SSeq)))


def env_lookup_default(env, name, default):
    try:
        return env.lookup(name)
    except KeyError:
        return default


def _func_env(env):
    e = env
    while e is not None:
        if hasattr(e, "func"):
            return e
        e = e.parent
    return env
