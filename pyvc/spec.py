"""pyvc.spec -- spec functions (recursive definitions usable on concrete and
symbolic arguments) and inductive lemmas over them (DESIGN.md 2.3).
"""
from __future__ import annotations

import time
import traceback
from typing import Any, Callable, Dict, List

import z3

from . import core
from .core import SInt, SSeq, SBool, as_bool_term, ctx, is_sym, mk_bool, mk_num, num_term, seq_term

_SORTS = {"int": z3.IntSort(), "bytes": core.IntSeq, "str": core.IntSeq, "bool": z3.BoolSort()}


def _wrap(sort, term, ascii=False):
    if sort == "int":
        return mk_num(term)
    if sort == "bool":
        return mk_bool(term)
    return core._seq_value(term, sort, ascii)


def _term(sort, v):
    if sort == "int":
        return num_term(v)
    if sort == "bool":
        return as_bool_term(v)
    return seq_term(v)


def _apps(term, decl):
    out, seen, stack = [], set(), [term]
    while stack:
        t = stack.pop()
        if t.get_id() in seen:
            continue
        seen.add(t.get_id())
        if z3.is_app(t):
            if t.decl().eq(decl):
                out.append(t)
            stack.extend(t.children())
        elif z3.is_quantifier(t):
            stack.append(t.body())
    return out


class SpecFn:
    """A mathematical function with a Python definition (used on concrete
    values) and a recursive SMT definition (used on symbolic values).  The two
    definitions are compared on small inputs by selftest()."""

    REGISTRY: Dict[str, "SpecFn"] = {}

    def __init__(self, name, args: List[str], ret: str, body: Callable, py: Callable, ascii=False, tests=None,
                 bases=(), uses=(), depth=1):
        self.depth = depth        # how many levels of the recursion each application is unfolded
        self.bases = list(bases)  # base-case arguments whose definition instance is always supplied
        self.uses = list(uses)    # other spec functions applied raw (via .f) inside the body
        SpecFn.REGISTRY[name] = self
        self._rec = None
        self.name = name
        self.args = args
        self.ret = ret
        self.py = py
        self.ascii = ascii
        self.tests = tests or []
        self._body = body
        self._f = None

    @property
    def f(self):
        """The function symbol.  It is uninterpreted for the solver; its
        recursive definition is supplied as *instances*: every application
        made through __call__ adds the one-level unfolding
        f(args) == body(args) at exactly those arguments to the path
        condition (sound: each is an instance of the definition; complete
        enough: proofs by induction need one unfolding per mentioned term)."""
        if self._f is None:
            self._f = z3.Function(self.name, *[_SORTS[a] for a in self.args], _SORTS[self.ret])
        return self._f

    def definition_at(self, *terms):
        return self.f(*terms) == self._body(self.f, *terms)

    def unfold(self, *vals):
        """Explicitly add the definition instance at the given arguments."""
        if any(is_sym(v) for v in vals):
            ctx().assume(self.definition_at(*[_term(a, v) for a, v in zip(self.args, vals)]))

    def __call__(self, *vals):
        if not any(is_sym(v) for v in vals):
            return self.py(*vals)
        terms = [_term(a, v) for a, v in zip(self.args, vals)]
        self._assume_instance(terms)
        for b in self.bases:
            self._assume_instance([_term(a, v) for a, v in zip(self.args, b)])
        return _wrap(self.ret, self.f(*terms), self.ascii)

    def _assume_instance(self, terms, depth=None):
        depth = self.depth if depth is None else depth
        d = self.definition_at(*terms)
        ctx().assume(d)
        for u in self.uses:  # spec functions applied raw inside the body get their instance there too
            for app in _apps(d, u.f):
                ctx().assume(u.definition_at(*app.children()))
        if depth > 1:
            body = d.arg(1)
            for app in _apps(body, self.f):  # the recursive calls of this instance: unfold them once more
                self._assume_instance([z3.simplify(a) for a in app.children()], depth - 1)

    @property
    def rec(self):
        """The same function as a z3 recursive definition (full semantics),
        used to confirm counter-models found against the instance-based
        abstraction."""
        if self._rec is None:
            self._rec = z3.RecFunction(self.name + "!rec", *[_SORTS[a] for a in self.args], _SORTS[self.ret])
            formals = [z3.FreshConst(_SORTS[a], "a") for a in self.args]
            body = self._body(self._rec, *formals)
            for u in self.uses:
                body = z3.substitute_funs(body, (u.f, u.rec(*[z3.Var(k, _SORTS[a]) for k, a in enumerate(u.args)])))
            z3.RecAddDefinition(self._rec, formals, body)
        return self._rec

    def selftest(self):
        """Compare the SMT definition with the Python definition on the
        registered test arguments: a recursive z3 definition with the same
        body must evaluate to the Python value."""
        rf = self.rec
        bad = []
        for t in self.tests:
            want = self.py(*t)
            term = rf(*[_term(a, v) for a, v in zip(self.args, t)])
            s = z3.Solver()
            s.set("timeout", 5000)
            s.add(term != _term(self.ret, want))
            if s.check() != z3.unsat:
                bad.append((t, want))
        return bad


def register_pow2(decl):
    if "pow2" not in SpecFn.REGISTRY:
        fn = SpecFn("pow2", ["int"], "int", lambda f, k: z3.If(k <= 0, 1, 2 * f(k - 1)), lambda k: 2 ** max(k, 0),
                    tests=[(0,), (1,), (10,)])
        fn._f = decl


def confirm_sat(assertions, timeout_s=10.0):
    """A `sat` answer over the instance-based abstraction of the spec
    functions may be spurious (the solver is free to interpret an application
    that was not unfolded).  Re-solve with every spec function replaced by
    its recursive definition: only a model of that problem is a
    counter-model of the VC.  Returns 'sat', 'unsat' or 'unknown'."""
    used = []
    text = " ".join(a.sexpr() for a in assertions)
    for name, fn in SpecFn.REGISTRY.items():
        if fn._f is not None and ("(%s " % name) in text:
            used.append(fn)
    if not used:
        return "sat"
    subs = [(fn.f, fn.rec(*[z3.Var(k, _SORTS[a]) for k, a in enumerate(fn.args)])) for fn in used]
    try:
        new = [z3.substitute_funs(a, *subs) for a in assertions]
    except z3.Z3Exception:
        return "unknown"
    r = core._isolated_check(new, min(timeout_s, 5.0), False)[0]
    if r == "unknown":
        # the recursive-definition form through the whole portfolio (define-fun-rec in SMT-LIB)
        r = core._run_cli(core._smt2_text(new), int(max(1, timeout_s)))[0]
    return r


class Lemma:
    """forall params satisfying requires: statement.  Proved by well-founded
    induction: `induction(**p)` lists (guard, smaller-params) instances of the
    statement that may be assumed, each with measure strictly smaller and
    >= 0; `hints(**p)` lists instances of other (already proved) lemmas."""

    prop = ""
    params: Dict[str, Any] = {}

    def requires(self, **p):
        return True

    def statement(self, **p):
        raise NotImplementedError

    def measure(self, **p):
        return 0

    def induction(self, **p):
        return []

    def hints(self, **p):
        return []

    def small_cases(self):
        """Concrete parameter dicts on which the statement is also evaluated."""
        return []

    @property
    def name(self):
        return "%s/lemma/%s" % (self.prop, type(self).__name__)

    # use inside contracts: returns the statement instance as an assumption
    @classmethod
    def instance(cls, **p):
        self = cls()
        c = ctx()
        if c.concrete:
            return True
        return core.implies(self.requires(**p), self.statement(**p))

    @classmethod
    def use(cls, **p):
        c = ctx()
        if c.concrete:
            return
        c.assume(as_bool_term(cls.instance(**p)))


def lemma_run(lemma: Lemma, tier="quick"):
    from .api import FunctionResult
    res = FunctionResult.__new__(FunctionResult)
    res.contract = lemma.name
    res.function = "lemma:" + type(lemma).__name__
    res.sha = None
    res.paths = 1
    res.obligations = []
    res.undecided = []
    res.violations = []
    res.known = []
    res.unsupported = None
    res.error = None
    res.cover_ok = True
    res.solver_s = 0.0
    res.bounded = None
    res.axioms = []
    res.trusted = []
    t0 = time.time()
    timeout = 10 if tier == "quick" else 60
    c = core.Context()
    old = core.CTX
    core.set_ctx(c)
    try:
        p = {n: s.fresh(n) for n, s in lemma.params.items()}
        req = lemma.requires(**p)
        if req is not True:
            c.assume(as_bool_term(req))
        hyps = list(c.pc)
        m0 = lemma.measure(**p)
        obs = []
        for k, (guard, smaller) in enumerate(lemma.induction(**p)):
            g = as_bool_term(guard)
            m1 = lemma.measure(**smaller)
            wf = core.band(m1 >= 0, m1 < m0, lemma.requires(**smaller))
            obs.append(("%s/wf/%d" % (lemma.name, k), hyps + [g], as_bool_term(wf)))
            hyps.append(z3.Implies(g, as_bool_term(lemma.statement(**smaller))))
        for (L, args) in lemma.hints(**p):
            hyps.append(as_bool_term(L.instance(**args)))
        goal = as_bool_term(lemma.statement(**p))
        hyps += [x for x in c.pc if not any(x is h for h in hyps)]  # definition instances of the spec functions used
        obs.append(("%s/step" % lemma.name, hyps, goal))
        for name, hs, goal in obs:
            ts = time.time()
            verdict, backend, model = core.solve(hs + [z3.Not(goal)], timeout, want_model=True)
            if verdict == "sat":
                r2 = confirm_sat(hs + [z3.Not(goal)], timeout)
                if r2 != "sat":
                    verdict, backend = ("unsat", "z3py-recfun") if r2 == "unsat" else ("unknown", "abstraction-sat-unconfirmed")
            dt = time.time() - ts
            res.solver_s += dt
            rec = {"name": name, "kind": "lemma", "backend": backend, "verdict": verdict, "seconds": round(dt, 3)}
            res.obligations.append(rec)
            if verdict == "unknown":
                res.undecided.append(rec)
            elif verdict == "sat":
                res.violations.append({"obligation": name, "backend": backend, "info": {"lemma": True},
                                       "model": model.get("__text__", "")[:1500] if model is not None else ""})
    except core.Unsupported as e:
        res.unsupported = str(e)
    except Exception as e:
        res.error = "%r\n%s" % (e, traceback.format_exc())
    finally:
        core.set_ctx(old)
    # the statement must also hold on the concrete small cases (guards a wrong spec function)
    cc = core.Context()
    cc.concrete = True
    core.set_ctx(cc)
    try:
        for p in lemma.small_cases():
            if lemma.requires(**p) and not lemma.statement(**p):
                res.error = "lemma %s is false on %r" % (lemma.name, p)
    except Exception as e:
        res.error = "lemma small case failed: %r" % (e,)
    finally:
        core.set_ctx(old)
    res.wall_s = round(time.time() - t0, 3)
    return res
