"""pyvc.core -- symbolic values, path context, solver portfolio.

Values handled by the interpreter are either plain Python values (executed
natively) or instances of the S* classes below, which wrap z3 terms.  The same
contract lambdas run over both.
"""
from __future__ import annotations

import itertools
import os
import subprocess
import tempfile
import time
from typing import Any, Callable, List, Optional

import z3

IntSeq = z3.SeqSort(z3.IntSort())
ValSort = z3.DeclareSort("Val")  # opaque payload values (equality only)


class Unsupported(Exception):
    """The code (or contract) left the subset the VC generator understands."""


class PathLimit(Exception):
    pass


class Infeasible(Exception):
    """Raised to abandon a path whose path condition became unsatisfiable."""


class Cut(Exception):
    """Raised to end a path at a loop cut point (after the body re-established
    the invariant)."""


# --------------------------------------------------------------------------
# solver portfolio


class SolverStats:
    def __init__(self):
        self.calls = 0
        self.seconds = 0.0
        self.by_backend: dict = {}

    def note(self, backend, dt):
        self.calls += 1
        self.seconds += dt
        b = self.by_backend.setdefault(backend, [0, 0.0])
        b[0] += 1
        b[1] += dt


STATS = SolverStats()
CLI_SOLVERS = [
    ("z3-4.8.12", ["/usr/bin/z3", "-smt2"], "-T:%d"),
    ("z3-5.1.0", ["z3-new", "-smt2"], "-T:%d"),
    ("cvc5-1.0.3", ["/usr/bin/cvc5", "--strings-exp", "--lang=smt2"], "--tlimit=%d000"),
]


def _smt2_text(assertions) -> str:
    s = z3.Solver()
    s.add(*assertions)
    # z3's simplifier leaves its internal in-range / out-of-range variants of seq.nth in terms;
    # nth(s,i) == ite(0 <= i < len s, nth_i(s,i), nth_u(s,i)) and each variant only occurs under its
    # guard, so writing both back as seq.nth is exact and lets every solver parse the text.
    return s.to_smt2().replace("seq.nth_i", "seq.nth").replace("seq.nth_u", "seq.nth")


def _run_cli(text: str, timeout: int):
    """Race the CLI solvers on SMT-LIB text; return (verdict, backend)."""
    with tempfile.NamedTemporaryFile("w", suffix=".smt2", delete=False, dir=_scratch()) as f:
        f.write("(set-logic ALL)\n" + text)
        path = f.name
    procs = []
    try:
        for name, cmd, tl in CLI_SOLVERS:
            try:
                p = subprocess.Popen(
                    cmd + [tl % timeout, path],
                    stdout=subprocess.PIPE,
                    stderr=subprocess.DEVNULL,
                    text=True,
                )
                procs.append((name, p))
            except OSError:
                pass
        deadline = time.time() + timeout + 2
        verdict, who = "unknown", "portfolio"
        pending = list(procs)
        while pending and time.time() < deadline:
            for name, p in list(pending):
                if p.poll() is not None:
                    pending.remove((name, p))
                    out = (p.stdout.read() or "").strip().splitlines()
                    ans = out[0].strip() if out else ""
                    if ans in ("sat", "unsat"):
                        verdict, who = ans, name
                        pending = []
                        break
            else:
                time.sleep(0.02)
        return verdict, who
    finally:
        for _, p in procs:
            if p.poll() is None:
                p.kill()
            try:
                p.stdout.close()
            except Exception:
                pass
            p.wait()
        os.unlink(path)


def _scratch():
    d = os.environ.get("PYVC_SCRATCH") or os.path.join(
        os.path.dirname(os.path.dirname(os.path.abspath(__file__))), ".scratch"
    )
    os.makedirs(d, exist_ok=True)
    return d


SEQ_IN_USE = [False]  # set once any sequence-sorted term has been built in this process


def _py_value(v):
    """Python value of a z3 model value (ints, bools, rationals, Seq Int)."""
    if z3.is_int_value(v):
        return v.as_long()
    if z3.is_true(v):
        return True
    if z3.is_false(v):
        return False
    if z3.is_rational_value(v):
        return {"num": v.numerator_as_long(), "den": v.denominator_as_long()}
    if z3.is_seq(v):
        vals = _const_seq(z3.simplify(v))
        if vals is not None:
            return {"seq": vals}
    return {"repr": str(v)[:200]}


def _isolated_check(assertions, timeout_s, want_model):
    """Run one in-process z3 query in a forked child with a hard deadline.
    z3's own timeout is not honoured in some sequence-solver phases (e.g. a
    model with a length of 2**32), and a native call cannot be interrupted, so
    the query runs in a copy of this process that can be killed.  Returns
    (verdict, model-dict-or-None)."""
    import json as _json
    import select
    import signal
    if not SEQ_IN_USE[0]:
        # pure arithmetic / boolean / uninterpreted-function queries: z3's timeout is reliable there,
        # so the fork (expensive with a large heap) is skipped
        s = z3.Solver()
        s.set("timeout", int(timeout_s * 1000))
        s.add(*assertions)
        res = s.check()
        verdict = "sat" if res == z3.sat else "unsat" if res == z3.unsat else "unknown"
        model = None
        if res == z3.sat and want_model:
            m = s.model()
            model = {d.name(): _py_value(m[d]) for d in m.decls() if d.arity() == 0}
            model["__text__"] = str(m)[:3000]
        return verdict, model
    r, w = os.pipe()
    pid = os.fork()
    if pid == 0:
        code = 0
        try:
            os.close(r)
            s = z3.Solver()
            s.set("timeout", int(timeout_s * 1000))
            s.add(*assertions)
            res = s.check()
            out = {"r": "sat" if res == z3.sat else "unsat" if res == z3.unsat else "unknown"}
            if res == z3.sat and want_model:
                m = s.model()
                out["model"] = {d.name(): _py_value(m[d]) for d in m.decls() if d.arity() == 0}
                out["text"] = str(m)[:3000]
            os.write(w, _json.dumps(out).encode())
        except BaseException:
            code = 1
        finally:
            os._exit(code)
    os.close(w)
    data = b""
    deadline = time.time() + timeout_s + 1.5
    try:
        while True:
            left = deadline - time.time()
            if left <= 0:
                break
            ready, _, _ = select.select([r], [], [], left)
            if not ready:
                break
            chunk = os.read(r, 65536)
            if not chunk:
                break
            data += chunk
    finally:
        os.close(r)
        try:
            os.kill(pid, signal.SIGKILL)
        except ProcessLookupError:
            pass
        try:
            os.waitpid(pid, 0)
        except ChildProcessError:
            pass
    if not data:
        return "unknown", None
    try:
        out = _json.loads(data.decode())
    except ValueError:
        return "unknown", None
    model = out.get("model")
    if model is not None:
        model = dict(model)
        model["__text__"] = out.get("text", "")
    return out["r"], model


def solve(assertions, timeout_s: float = 5.0, want_model=False, cli=True, inproc_budget=4.0):
    """Decide satisfiability of the conjunction.  Returns (verdict, backend,
    model-or-None); verdict in {'sat','unsat','unknown'}; a model is a dict
    symbol name -> Python value."""
    t0 = time.time()
    inproc = min(timeout_s, inproc_budget)
    r, model = _isolated_check(assertions, inproc, want_model) if inproc > 0 else ("unknown", None)
    if r in ("sat", "unsat"):
        STATS.note("z3py-5.1.0", time.time() - t0)
        return r, "z3py-5.1.0", model
    if not cli:
        STATS.note("z3py-5.1.0", time.time() - t0)
        return "unknown", "z3py-5.1.0", None
    text = _smt2_text(assertions)
    verdict, who = _run_cli(text, int(max(1, timeout_s)))
    if verdict == "unknown" and os.environ.get("PYVC_KEEP_SMT"):  # debugging aid: keep undecided queries
        os.makedirs(os.environ["PYVC_KEEP_SMT"], exist_ok=True)
        with open(os.path.join(os.environ["PYVC_KEEP_SMT"], "q%d_%d.smt2" % (os.getpid(), STATS.calls)), "w") as f:
            f.write("(set-logic ALL)\n" + text)
    STATS.note(who, time.time() - t0)
    model = None
    if verdict == "sat" and want_model:
        # try once more in-process with a longer budget for a model
        r2, model = _isolated_check(assertions, timeout_s, True)
        if r2 != "sat":
            model = None
    return verdict, who, model


# --------------------------------------------------------------------------
# path context


class Obligation:
    __slots__ = ("name", "hyps", "goal", "kind", "info")

    def __init__(self, name, hyps, goal, kind="ensures", info=None):
        self.name = name
        self.hyps = hyps
        self.goal = goal
        self.kind = kind
        self.info = info or {}


class Event:
    """A recorded call-out."""

    def __init__(self, name, target=None, args=(), kwargs=None, snap=None):
        self.name = name
        self.target = target
        self.args = tuple(args)
        self.kwargs = kwargs or {}
        self.snap = snap or {}

    def __repr__(self):
        return "Event(%s%r)" % (self.name, self.args)


class Context:
    def __init__(self, feas_timeout=2.0, feas_retry=True):
        self.schedule: List[bool] = []
        self.feas_timeout = feas_timeout
        self.feas_retry = feas_retry
        self.reset_run()
        self.counter = itertools.count()
        self.symbols: dict = {}  # name -> (kind, term) for model read-back
        self.concrete = False

    def reset_run(self):
        NONNEG_IDS.clear()
        self.pos = 0
        self.trail: List[list] = []  # [choice, has_alternative]
        self.pc: List[Any] = []
        self.obligations: List[Obligation] = []
        self.trace: List[Event] = []
        self.ghost: dict = {}
        self.notes: List[str] = []
        self.counter = itertools.count()

    # -- fresh symbols ----------------------------------------------------
    def fresh_name(self, base):
        return "%s!%d" % (base, next(self.counter))

    # -- assumptions --------------------------------------------------------
    def assume(self, cond):
        cond = as_bool_term(cond)
        if z3.is_true(cond):
            return
        if z3.is_false(cond):
            raise Infeasible()
        self.pc.append(cond)

    def _feasible(self, terms):
        """sat / unsat / unknown of a path condition.  The first attempt is short; an `unknown` (usually a wall-clock
        time-out on a loaded machine) is retried once with five times the budget before the path is assumed feasible --
        assuming an infeasible path feasible is sound for the proof but sends the execution into states the code can
        never be in (spurious IndexError in a contract's setup, operations outside the modelled fragment)."""
        v, _, _ = solve(terms, self.feas_timeout, cli=False)
        if v == "unknown" and self.feas_retry:
            v, _, _ = solve(terms, 5 * self.feas_timeout, cli=False)
        return v

    def check_feasible(self):
        if self._feasible(self.pc) == "unsat":
            raise Infeasible()

    # -- branching ----------------------------------------------------------
    def decide(self, cond) -> bool:
        if isinstance(cond, bool):
            return cond
        term = z3.simplify(as_bool_term(cond))
        if z3.is_true(term):
            return True
        if z3.is_false(term):
            return False
        if self.pos < len(self.schedule):
            choice = self.schedule[self.pos]
            self.pos += 1
            self.trail.append([choice, False])  # alternatives handled by owner
            self.pc.append(term if choice else z3.Not(term))
            return choice
        vt = self._feasible(self.pc + [term])
        vf = self._feasible(self.pc + [z3.Not(term)])
        can_t = vt != "unsat"
        can_f = vf != "unsat"
        if not can_t and not can_f:
            raise Infeasible()
        if can_t and can_f:
            choice, alt = True, True
        elif can_t:
            choice, alt = True, False
        else:
            choice, alt = False, False
        self.schedule.append(choice)
        self.pos += 1
        self.trail.append([choice, alt])
        self.pc.append(term if choice else z3.Not(term))
        return choice

    # -- obligations ----------------------------------------------------------
    def oblige(self, name, goal, kind="ensures", info=None):
        if isinstance(goal, SBool):
            goal = goal.term
        elif isinstance(goal, bool):
            goal = z3.BoolVal(goal)
        elif not z3.is_bool(goal):
            raise Unsupported("obligation %s: goal is %r, not a boolean" % (name, type(goal)))
        self.obligations.append(Obligation(name, list(self.pc), goal, kind, info))

    def emit(self, name, target=None, args=(), kwargs=None, snap=None):
        ev = Event(name, target, args, kwargs, snap)
        self.trace.append(ev)
        return ev


CTX: Optional[Context] = None


def ctx() -> Context:
    if CTX is None:
        raise RuntimeError("no active pyvc context")
    return CTX


def set_ctx(c):
    global CTX
    CTX = c


def explore(run: Callable[[Context], Any], max_paths=4000, feas_timeout=2.0, feas_retry=True):
    """Depth-first exploration of all decision sequences of run(ctx).
    Yields (ctx-after-run, outcome) where outcome is ('ok', value) or
    ('exc', exception) for every feasible complete path."""
    c = Context(feas_timeout, feas_retry)
    old = CTX
    set_ctx(c)
    # Alternatives bookkeeping: trail entries created live carry has_alt; we
    # keep a parallel stack across runs.
    alts: List[bool] = []
    n = 0
    try:
        while True:
            c.reset_run()
            outcome = None
            try:
                v = run(c)
                outcome = ("ok", v)
            except Infeasible:
                outcome = None
            except Cut:
                outcome = ("cut", None)
            except (Unsupported, PathLimit, RecursionError):
                raise
            except BaseException as e:  # exceptions of the interpreted code
                if isinstance(e, (KeyboardInterrupt, SystemExit, MemoryError)):
                    raise
                outcome = ("exc", e)
            # merge live has_alt flags
            for i, (ch, alt) in enumerate(c.trail):
                if i >= len(alts):
                    alts.append(alt)
            if outcome is not None:
                n += 1
                if n > max_paths:
                    raise PathLimit("more than %d paths" % max_paths)
                yield c, outcome
            # backtrack
            sched = c.schedule[: len(c.trail)]
            alts = alts[: len(sched)]
            while sched and not alts[-1]:
                sched.pop()
                alts.pop()
            if not sched:
                return
            sched[-1] = not sched[-1]
            alts[-1] = False
            c.schedule = sched
    finally:
        set_ctx(old)


# --------------------------------------------------------------------------
# symbolic values


class SV:
    """Base of symbolic values."""

    __slots__ = ("term",)

    def __hash__(self):
        return id(self)


def as_bool_term(x):
    if isinstance(x, SBool):
        return x.term
    if isinstance(x, bool):
        return z3.BoolVal(x)
    if z3.is_expr(x) and z3.is_bool(x):
        return x
    if isinstance(x, SInt):
        return x.term != 0
    if isinstance(x, SSeq):
        return z3.Length(x.term) > 0
    if isinstance(x, SList):
        return z3.Length(x.seq) > 0
    if x is None:
        return z3.BoolVal(False)
    if isinstance(x, (int, bytes, str, tuple, list, float)):
        return z3.BoolVal(bool(x))
    if isinstance(x, (SObj, SRef)):
        return z3.BoolVal(True)
    raise Unsupported("truth value of %r" % type(x))


def is_sym(x) -> bool:
    return isinstance(x, (SV, SList))


def deep_sym(x) -> bool:
    if isinstance(x, (SV, SList, SObj, SChunks)):
        return True
    if isinstance(x, (tuple, list)):
        return any(deep_sym(e) for e in x)
    if isinstance(x, dict):
        return any(deep_sym(e) for e in x.values()) or any(deep_sym(k) for k in x)
    return False


class SBool(SV):
    __slots__ = ()

    def __init__(self, term):
        self.term = term

    def __bool__(self):
        return ctx().decide(self.term)

    def __and__(self, o):
        return mk_bool(z3.And(self.term, as_bool_term(o)))

    __rand__ = __and__

    def __or__(self, o):
        return mk_bool(z3.Or(self.term, as_bool_term(o)))

    __ror__ = __or__

    def __invert__(self):
        return mk_bool(z3.Not(self.term))

    def __rshift__(self, o):  # implication
        return mk_bool(z3.Implies(self.term, as_bool_term(o)))

    def __rrshift__(self, o):
        return mk_bool(z3.Implies(as_bool_term(o), self.term))

    def __eq__(self, o):
        return mk_bool(self.term == as_bool_term(o))

    def __ne__(self, o):
        return mk_bool(self.term != as_bool_term(o))

    __hash__ = SV.__hash__

    def __repr__(self):
        return "SBool(%s)" % self.term


def mk_bool(term):
    term = z3.simplify(term)
    if z3.is_true(term):
        return True
    if z3.is_false(term):
        return False
    return SBool(term)


def num_term(x):
    """z3 arithmetic term of a numeric value (bool counts as int)."""
    if isinstance(x, (SInt, SReal)):
        return x.term
    if isinstance(x, bool):
        return z3.IntVal(int(x))
    if isinstance(x, int):
        return z3.IntVal(x)
    if isinstance(x, float):
        if x != x or x in (float("inf"), float("-inf")):
            raise Unsupported("non-finite float")
        return z3.RealVal(repr(x)) if x != int(x) else z3.RealVal(int(x))
    if isinstance(x, SBool):
        return z3.If(x.term, 1, 0)
    raise Unsupported("numeric value expected, got %r" % type(x))


def mk_num(term):
    term = z3.simplify(term)
    if z3.is_int_value(term):
        return term.as_long()
    if z3.is_int(term):
        return SInt(term)
    if z3.is_rational_value(term):
        return SReal(term)
    return SReal(term)


def _coerce2(a, b):
    ta, tb = num_term(a), num_term(b)
    if z3.is_int(ta) and z3.is_real(tb):
        ta = z3.ToReal(ta)
    elif z3.is_real(ta) and z3.is_int(tb):
        tb = z3.ToReal(tb)
    return ta, tb


def floordiv_term(x, y):
    return z3.If(y > 0, x / y, (-x) / (-y))


class _Num(SV):
    __slots__ = ()

    def _bin(self, o, f, swap=False):
        if not isinstance(o, (int, float, SInt, SReal, SBool)):
            return NotImplemented
        a, b = _coerce2(self, o)
        if swap:
            a, b = b, a
        return f(a, b)

    def __add__(self, o):
        r = self._bin(o, lambda a, b: a + b)
        return r if r is NotImplemented else mk_num(r)

    def __radd__(self, o):
        r = self._bin(o, lambda a, b: a + b, True)
        return r if r is NotImplemented else mk_num(r)

    def __sub__(self, o):
        r = self._bin(o, lambda a, b: a - b)
        return r if r is NotImplemented else mk_num(r)

    def __rsub__(self, o):
        r = self._bin(o, lambda a, b: a - b, True)
        return r if r is NotImplemented else mk_num(r)

    def __mul__(self, o):
        r = self._bin(o, lambda a, b: a * b)
        return r if r is NotImplemented else mk_num(r)

    def __rmul__(self, o):
        r = self._bin(o, lambda a, b: a * b, True)
        return r if r is NotImplemented else mk_num(r)

    def __neg__(self):
        return mk_num(-self.term)

    def __pos__(self):
        return self

    def __abs__(self):
        return mk_num(z3.If(self.term >= 0, self.term, -self.term))

    def _div(self, a, b, floor):
        zero = mk_bool(b == 0)
        if zero is True or (zero is not False and ctx().decide(b == 0)):
            raise ZeroDivisionError("division by zero")
        if floor:
            if z3.is_int(a) and z3.is_int(b):
                if z3.is_int_value(b) and b.as_long() > 0:
                    return mk_num(a / b)
                return mk_num(floordiv_term(a, b))
            raise Unsupported("floor division of reals")
        # int / x: CPython first converts the integer to a float, which is exact only up to 2**53.  Floats are treated
        # as reals (assumption A-float) only where that conversion is exact on this path; an integer operand that the
        # path condition does not bound is outside the subset (seeded change C34-2: int(2**bits / 2 - 1)).
        for t in (a, b):
            if z3.is_int(t) and not _int_fits_float(t):
                raise Unsupported("true division with an integer operand not known to be below 2**53 in magnitude: "
                                  "the conversion to float may round")
        if z3.is_int(a):
            a = z3.ToReal(a)
        if z3.is_int(b):
            b = z3.ToReal(b)
        return mk_num(a / b)

    def __floordiv__(self, o):
        a, b = _coerce2(self, o)
        return self._div(a, b, True)

    def __rfloordiv__(self, o):
        b, a = _coerce2(self, o)
        return self._div(a, b, True)

    def __truediv__(self, o):
        a, b = _coerce2(self, o)
        return self._div(a, b, False)

    def __rtruediv__(self, o):
        b, a = _coerce2(self, o)
        return self._div(a, b, False)

    def _mod(self, a, b):
        zero = mk_bool(b == 0)
        if zero is True or (zero is not False and ctx().decide(b == 0)):
            raise ZeroDivisionError("modulo by zero")
        if z3.is_int(a) and z3.is_int(b):
            if z3.is_int_value(b) and b.as_long() > 0:
                return mk_num(a % b)
            return mk_num(a - b * floordiv_term(a, b))
        # real modulo (A-float: floats as reals): a == q*b + r with an integer quotient q and 0 <= r < b
        # for b > 0 (Python: the result has the sign of the divisor).  q is a fresh integer defined by
        # these constraints (it exists and is unique), which keeps the only non-linear term q*b explicit.
        c = ctx()
        if z3.is_int(a):
            a = z3.ToReal(a)
        if z3.is_int(b):
            b = z3.ToReal(b)
        q = z3.Int(c.fresh_name("quot"))
        r = z3.Real(c.fresh_name("rem"))
        c.assume(a == z3.ToReal(q) * b + r)
        if c.decide(b > 0):
            c.assume(z3.And(r >= 0, r < b))
        else:
            c.assume(z3.And(r <= 0, r > b))
        return SReal(r)

    def __mod__(self, o):
        a, b = _coerce2(self, o)
        return self._mod(a, b)

    def __rmod__(self, o):
        if isinstance(o, (bytes, str)):
            raise Unsupported("%-formatting with symbolic value")
        b, a = _coerce2(self, o)
        return self._mod(a, b)

    def __divmod__(self, o):
        return (self // o, self % o)

    def __rshift__(self, o):
        if isinstance(o, int) and o >= 0 and isinstance(self, SInt):
            return mk_num(self.term / (2**o))
        raise Unsupported(">> by symbolic amount")

    def __lshift__(self, o):
        if isinstance(o, int) and o >= 0 and isinstance(self, SInt):
            return mk_num(self.term * (2**o))
        raise Unsupported("<< by symbolic amount")

    def __rlshift__(self, o):
        raise Unsupported("<< by symbolic amount")

    def __and__(self, o):
        if isinstance(o, int) and isinstance(self, SInt) and o >= 0:
            if o & (o + 1) == 0:  # 2^k - 1
                return mk_num(self.term % (o + 1))
            if o & (o - 1) == 0:  # single bit
                return mk_num(((self.term / o) % 2) * o)
        raise Unsupported("& with non-mask operand")

    __rand__ = __and__

    def __or__(self, o):
        """a | b for non-negative ints: a fresh r with max(a, b) <= r <= a + b (true of bitwise or), and r == a + b when
        a is syntactically t * 2^n and 0 <= b < 2^n (disjoint bits).  An over-approximation otherwise."""
        if not isinstance(self, SInt) or not isinstance(o, (int, SInt)) or isinstance(o, bool):
            raise Unsupported("| on non-int symbolic values")
        a, b = self.term, num_term(o)
        c = ctx()
        r = z3.Int(c.fresh_name("bitor"))
        nonneg = z3.And(a >= 0, b >= 0)
        c.assume(z3.Implies(nonneg, z3.And(r >= a, r >= b, r <= a + b)))
        for x, y in ((a, b), (b, a)):
            if z3.is_mul(x) and x.num_args() == 2:
                for k in (0, 1):
                    n = x.arg(k)
                    if z3.is_int_value(n) and n.as_long() > 0 and n.as_long() & (n.as_long() - 1) == 0:
                        c.assume(z3.Implies(z3.And(nonneg, y < n.as_long()), r == a + b))
        return SInt(r)

    __ror__ = __or__

    def __pow__(self, o):
        if isinstance(o, int) and 0 <= o <= 8:
            t = z3.IntVal(1) if isinstance(self, SInt) else z3.RealVal(1)
            for _ in range(o):
                t = t * self.term
            return mk_num(t)
        raise Unsupported("** with symbolic/large exponent")

    def __rpow__(self, o):
        if o == 2 and isinstance(self, SInt):
            return SInt(pow2(self.term))
        raise Unsupported("symbolic exponent")

    def _cmp(self, o, f):
        if o is None or isinstance(o, (bytes, str, tuple, list, SSeq, SObj, SRef)):
            return NotImplemented
        a, b = _coerce2(self, o)
        return mk_bool(f(a, b))

    def __lt__(self, o):
        return self._cmp(o, lambda a, b: a < b)

    def __le__(self, o):
        return self._cmp(o, lambda a, b: a <= b)

    def __gt__(self, o):
        return self._cmp(o, lambda a, b: a > b)

    def __ge__(self, o):
        return self._cmp(o, lambda a, b: a >= b)

    def __eq__(self, o):
        if not isinstance(o, (int, float, SInt, SReal, SBool)):
            return False
        a, b = _coerce2(self, o)
        return mk_bool(a == b)

    def __ne__(self, o):
        r = self.__eq__(o)
        return (not r) if isinstance(r, bool) else ~r

    __hash__ = SV.__hash__

    def __bool__(self):
        return ctx().decide(self.term != 0)

    def __index__(self):
        raise Unsupported("symbolic int used where a concrete index is required")

    def __repr__(self):
        return "%s(%s)" % (type(self).__name__, self.term)


class SInt(_Num):
    __slots__ = ()

    def __init__(self, term):
        self.term = term


class SReal(_Num):
    __slots__ = ()

    def __init__(self, term):
        self.term = term


_POW2 = z3.Function("pow2", z3.IntSort(), z3.IntSort())


def pow2(t):
    """2**t for symbolic t >= 0; axiomatised lazily: pow2(t) >= 1,
    pow2(t) == 2*pow2(t-1) for t >= 1, pow2(0) == 1."""
    c = ctx()
    from . import spec
    spec.register_pow2(_POW2)  # so that counter-models are confirmed against the recursive definition
    c.assume(z3.Implies(t >= 1, _POW2(t) == 2 * _POW2(t - 1)))
    c.assume(z3.Implies(t >= 1, _POW2(t - 1) >= 1))
    c.assume(z3.Implies(t == 0, _POW2(t) == 1))
    c.assume(z3.Implies(t >= 0, _POW2(t) >= 1))
    return _POW2(t)


# -- sequences ---------------------------------------------------------------


def seq_lit(values):
    if not values:
        return z3.Empty(IntSeq)
    units = [z3.Unit(z3.IntVal(v)) for v in values]
    return units[0] if len(units) == 1 else z3.Concat(*units)


def seq_term(x, kind=None):
    """Term of sort Seq Int for a bytes/str-like value."""
    SEQ_IN_USE[0] = True
    if isinstance(x, SSeq):
        return x.term
    if type(x).__name__ in ("MessageStr", "MessageBytes"):
        # a placeholder for text whose content the engine did not model (an unsupported format specification):
        # it may be passed around as a message, but its content must never enter a formula
        raise Unsupported("content of a string formatted from symbolic data")
    if isinstance(x, (bytes, bytearray)):
        return seq_lit(list(x))
    if isinstance(x, memoryview):
        return seq_lit(list(x.tobytes()))
    if isinstance(x, str):
        return seq_lit([ord(ch) for ch in x])
    raise Unsupported("sequence value expected, got %r" % type(x))


def kind_of(x):
    if isinstance(x, SSeq):
        return x.kind
    if isinstance(x, (bytes, bytearray, memoryview)):
        return "bytes"
    if isinstance(x, str):
        return "str"
    return None


def _seq_value(term, kind, ascii=False):
    """Concretise a constant sequence term if possible."""
    term = z3.simplify(term)
    vals = _const_seq(term)
    if vals is not None:
        return bytes(vals) if kind == "bytes" else "".join(map(chr, vals))
    return SSeq(term, kind, ascii)


def is_ascii(x):
    if isinstance(x, SSeq):
        return x.ascii
    if isinstance(x, (bytes, bytearray)):
        return all(b < 128 for b in x)
    if isinstance(x, str):
        return x.isascii()
    return False


def _const_seq(term):
    if z3.is_app(term):
        k = term.decl().kind()
        if k == z3.Z3_OP_SEQ_EMPTY:
            return []
        if k == z3.Z3_OP_SEQ_UNIT:
            a = term.arg(0)
            if z3.is_int_value(a):
                return [a.as_long()]
            return None
        if k == z3.Z3_OP_SEQ_CONCAT:
            out = []
            for i in range(term.num_args()):
                p = _const_seq(term.arg(i))
                if p is None:
                    return None
                out.extend(p)
            return out
    return None


def slen(x):
    """len() that works on concrete and symbolic sequences/lists."""
    if isinstance(x, SSeq):
        return mk_num(z3.Length(x.term))
    if isinstance(x, SList):
        return mk_num(z3.Length(x.seq))
    return len(x)


def norm_index(i, n_term):
    """Term for a Python index normalised against length term."""
    t = num_term(i)
    if isinstance(i, int):
        return z3.IntVal(i) if i >= 0 else n_term + i
    return z3.If(t < 0, t + n_term, t)


def slice_bounds(sl, n):
    """(start, length) terms for a Python slice with step None/1 over a
    sequence of length-term n."""
    if sl.step not in (None, 1):
        raise Unsupported("slice step")

    def clamp(v, default):
        if v is None:
            return default
        if isinstance(v, int):
            if v >= 0:
                return z3.IntVal(v) if pc_entails(n >= v) else z3.If(n < v, n, z3.IntVal(v))
            return n + v if pc_entails(n + v >= 0) else z3.If(n + v < 0, z3.IntVal(0), n + v)
        t = num_term(v)
        if known_nonneg(t):
            if pc_entails(t <= n):
                return t
            return z3.If(t > n, n, t)  # the negative-index branch of Python's slicing cannot apply
        if pc_entails(z3.And(t >= 0, t <= n)):
            return t
        if pc_entails(z3.And(t < 0, t + n >= 0)):
            return t + n
        return z3.If(t < 0, z3.If(t + n < 0, 0, t + n), z3.If(t > n, n, t))

    lo = clamp(sl.start, z3.IntVal(0))
    hi = clamp(sl.stop, n)
    ln = hi - lo if pc_entails(hi - lo >= 0) else z3.If(hi - lo < 0, 0, hi - lo)
    return z3.simplify(lo), z3.simplify(ln)


def _int_fits_float(t):
    """is the integer term t within [-2**53, 2**53] on every model of the current path condition?"""
    if z3.is_int_value(t):
        return abs(t.as_long()) <= 2 ** 53
    c = CTX
    if c is None or c.concrete:
        return True
    r, _ = _isolated_check(list(c.pc) + [z3.Or(t > 2 ** 53, t < -(2 ** 53))], 2.0, False)
    return r == "unsat"


def pc_entails(cond):
    """Opt-in (Contract.pc_slices): is `cond` a consequence of the current path condition?  Used only to drop clamping
    branches of slice bounds that cannot apply on this path (the simplified term is equal to the clamped one under the
    path condition, so this is a sound rewriting); a timeout or unknown keeps the clamps."""
    c = CTX
    if c is None or not getattr(c, "pc_slices", False) or c.concrete:
        return False
    cond = z3.simplify(cond)
    if z3.is_true(cond):
        return True
    if z3.is_false(cond):
        return False
    r, _ = _isolated_check(list(c.pc) + [z3.Not(cond)], 1.0, False)
    return r == "unsat"


class SSeq(SV):
    """Immutable symbolic sequence of ints: bytes (0..255) or str (code points)."""

    __slots__ = ("kind", "ascii", "maxlen")

    def __init__(self, term, kind="bytes", ascii=False, maxlen=None):
        self.term = term
        self.kind = kind
        self.ascii = ascii  # every element known to be < 128
        self.maxlen = maxlen  # static upper bound of the length when known (slices [a:a+k])

    # construction helpers
    def _same(self, o):
        k = kind_of(o)
        if k is None:
            return False
        return k == self.kind

    def __add__(self, o):
        if not self._same(o):
            if kind_of(o) is None:
                return NotImplemented
            raise TypeError("can't concat %s to %s" % (kind_of(o), self.kind))
        return _seq_value(z3.Concat(self.term, seq_term(o)), self.kind, self.ascii and is_ascii(o))

    def __radd__(self, o):
        if not self._same(o):
            if kind_of(o) is None:
                return NotImplemented
            raise TypeError("can't concat %s to %s" % (self.kind, kind_of(o)))
        return _seq_value(z3.Concat(seq_term(o), self.term), self.kind, self.ascii and is_ascii(o))

    def __mul__(self, o):
        raise Unsupported("sequence repetition")

    def __eq__(self, o):
        if isinstance(o, SSeq) or isinstance(o, (bytes, str, bytearray)):
            if not self._same(o):
                return False
            return mk_bool(self.term == seq_term(o))
        return False

    def __ne__(self, o):
        r = self.__eq__(o)
        return (not r) if isinstance(r, bool) else ~r

    __hash__ = SV.__hash__

    def __bool__(self):
        return ctx().decide(z3.Length(self.term) > 0)

    def __len__(self):
        raise Unsupported("len() of a symbolic sequence in native code; use L()")

    def __iter__(self):
        raise Unsupported("iteration over a symbolic sequence")

    def __getitem__(self, i):
        n = z3.Length(self.term)
        if isinstance(i, slice):
            lo, ln = slice_bounds(i, n)
            r = _seq_value(z3.SubSeq(self.term, lo, ln), self.kind, self.ascii)
            if isinstance(r, SSeq) and i.start is not None and i.stop is not None:
                try:
                    d = z3.simplify(num_term(i.stop) - num_term(i.start))
                    if z3.is_int_value(d) and 0 <= d.as_long() <= 16 and not (
                            isinstance(i.start, int) and i.start < 0) and not (isinstance(i.stop, int) and i.stop < 0):
                        r.maxlen = d.as_long()
                except Unsupported:
                    pass
            return r
        if not isinstance(i, (int, SInt)):
            raise TypeError("indices must be integers")
        t = num_term(i)
        ok = mk_bool(z3.And(t >= -n, t < n))
        if ok is False or (ok is not True and not ctx().decide(as_bool_term(ok))):
            raise IndexError("index out of range")
        idx = norm_index(i, n)
        if self.kind == "bytes":
            e = z3.simplify(self.term[idx])
            if z3.is_int_value(e):
                return e.as_long()
            ctx().assume(z3.And(e >= 0, e <= 255))
            return SInt(e)
        return _seq_value(z3.SubSeq(self.term, idx, 1), self.kind)

    def __contains__(self, o):
        raise Unsupported("'in' on symbolic sequence outside the interpreter")

    def __repr__(self):
        return "SSeq[%s](%s)" % (self.kind, self.term)

    # a few methods usable from contract lambdas and the interpreter
    def startswith(self, p):
        return seq_startswith(self, p)

    def endswith(self, p):
        return seq_endswith(self, p)


def seq_startswith(s, p):
    if isinstance(p, tuple):
        r = False
        for q in p:
            r = bor(r, seq_startswith(s, q))
        return r
    if kind_of(p) != kind_of(s):
        raise TypeError("startswith argument kind mismatch")
    return mk_bool(z3.PrefixOf(seq_term(p), seq_term(s)))


def seq_endswith(s, p):
    if isinstance(p, tuple):
        r = False
        for q in p:
            r = bor(r, seq_endswith(s, q))
        return r
    if kind_of(p) != kind_of(s):
        raise TypeError("endswith argument kind mismatch")
    return mk_bool(z3.SuffixOf(seq_term(p), seq_term(s)))


def seq_contains(s, sub):
    """`sub in s` for bytes/str; for bytes an int `sub` means element
    membership."""
    if isinstance(sub, (int, SInt)) and kind_of(s) == "bytes":
        return mk_bool(z3.Contains(seq_term(s), z3.Unit(num_term(sub))))
    if kind_of(sub) != kind_of(s):
        raise TypeError("'in' requires same kind")
    return mk_bool(z3.Contains(seq_term(s), seq_term(sub)))


def seq_find(s, sub, start=0):
    return mk_num(z3.IndexOf(seq_term(s), seq_term(sub), num_term(start)))


# -- boolean combinators usable on concrete and symbolic values --------------


def band(*xs):
    ts = []
    for x in xs:
        if isinstance(x, bool) or x is None or isinstance(x, (int, bytes, str, tuple, list)) and not is_sym(x):
            if not x:
                return False
            continue
        ts.append(as_bool_term(x))
    if not ts:
        return True
    return mk_bool(z3.And(*ts))


def bor(*xs):
    ts = []
    for x in xs:
        if not is_sym(x):
            if x:
                return True
            continue
        ts.append(as_bool_term(x))
    if not ts:
        return False
    return mk_bool(z3.Or(*ts))


def bnot(x):
    if not is_sym(x):
        return not x
    return mk_bool(z3.Not(as_bool_term(x)))


def implies(a, b):
    return bor(bnot(a), b)


def ite(c, a, b):
    """Non-forking conditional over numbers / sequences / booleans."""
    if not is_sym(c):
        return a if c else b
    ct = as_bool_term(c)
    if isinstance(a, (SSeq, bytes, str)) and isinstance(b, (SSeq, bytes, str)):
        k = kind_of(a)
        return _seq_value(z3.If(ct, seq_term(a), seq_term(b)), k, is_ascii(a) and is_ascii(b))
    if isinstance(a, (SBool, bool)) and isinstance(b, (SBool, bool)):
        return mk_bool(z3.If(ct, as_bool_term(a), as_bool_term(b)))
    ta, tb = _coerce2(a, b)
    return mk_num(z3.If(ct, ta, tb))


def veq(a, b):
    """Python `==` lifted to symbolic values; returns bool or SBool."""
    if isinstance(a, SObj) or isinstance(b, SObj):
        return a is b
    if isinstance(a, SRef) or isinstance(b, SRef):
        if isinstance(a, SRef) and isinstance(b, SRef):
            return mk_bool(a.term == b.term)
        return False
    if isinstance(a, SAny) or isinstance(b, SAny):
        if isinstance(a, SAny) and isinstance(b, SAny):
            return mk_bool(a.term == b.term)
        return False
    if isinstance(a, (tuple, list)) and isinstance(b, (tuple, list)) and type(a) is type(b):
        if len(a) != len(b):
            return False
        return band(*[veq(x, y) for x, y in zip(a, b)])
    if isinstance(a, SList) or isinstance(b, SList):
        if isinstance(a, SList) and isinstance(b, SList):
            return mk_bool(a.seq == b.seq)
        other, me = (b, a) if isinstance(a, SList) else (a, b)
        if isinstance(other, list):
            return mk_bool(me.seq == me.lit(other))
        return False
    if is_sym(a):
        r = a.__eq__(b)
        return False if r is NotImplemented else r
    if is_sym(b):
        r = b.__eq__(a)
        return False if r is NotImplemented else r
    return a == b


def vmin(*xs):
    if len(xs) == 1:
        xs = tuple(xs[0])
    r = xs[0]
    for x in xs[1:]:
        r = ite(x < r, x, r) if (is_sym(x) or is_sym(r)) else min(r, x)
    return r


def vmax(*xs):
    if len(xs) == 1:
        xs = tuple(xs[0])
    r = xs[0]
    for x in xs[1:]:
        r = ite(x > r, x, r) if (is_sym(x) or is_sym(r)) else max(r, x)
    return r


# -- opaque values, references, objects ---------------------------------------


class SAny(SV):
    """Opaque payload value: equality and declared predicates only."""

    __slots__ = ("tag",)

    def __init__(self, term, tag=None):
        self.term = term
        self.tag = tag

    def __eq__(self, o):
        return veq(self, o)

    def __ne__(self, o):
        return bnot(veq(self, o))

    __hash__ = SV.__hash__

    def __bool__(self):
        raise Unsupported("truth value of an opaque value")

    def __repr__(self):
        return "SAny(%s)" % self.term


def any_pred(name):
    return z3.Function(name, ValSort, z3.BoolSort())


class SRef(SV):
    """Symbolic reference to an object of class `cls` (element of a symbolic
    list).  Fields are read through per-field heap functions in the context."""

    __slots__ = ("cls",)

    def __init__(self, term, cls):
        self.term = term
        self.cls = cls

    def __eq__(self, o):
        return veq(self, o)

    def __ne__(self, o):
        return bnot(veq(self, o))

    __hash__ = SV.__hash__

    def __repr__(self):
        return "SRef[%s](%s)" % (self.cls, self.term)


class UnmodelledAttribute(AttributeError):
    """An attribute that the contract's setup never gave the object was read.  If this escapes the function under
    contract it says the *contract* is incomplete (e.g. the constructor now keeps something more), not that the code is
    wrong: the run is reported as outside the verified subset, never as a violation."""


class SObj:
    """An object with concrete identity whose fields hold (possibly symbolic)
    values.  `cls` is the real class (for method lookup) or None for an
    opaque collaborator whose every method call is a call-out."""

    def __init__(self, cls=None, name=None, fields=None, opaque=False):
        object.__setattr__(self, "_cls", cls)
        object.__setattr__(self, "_name", name or (cls.__name__ if cls else "obj"))
        object.__setattr__(self, "_fields", dict(fields or {}))
        object.__setattr__(self, "_opaque", opaque or cls is None)

    def __getattr__(self, k):
        f = object.__getattribute__(self, "_fields")
        if k in f:
            return f[k]
        raise AttributeError(k)

    def __setattr__(self, k, v):
        self._fields[k] = v

    def __delattr__(self, k):
        try:
            del self._fields[k]
        except KeyError:
            raise AttributeError(k)
        # remembered: reading it later is a genuine AttributeError of the code, not a gap of the contract's setup
        object.__getattribute__(self, "__dict__").setdefault("_deleted", set()).add(k)

    def __repr__(self):
        return "<SObj %s>" % self._name

    def snapshot(self):
        return Snapshot(self._name, {k: snap_value(v) for k, v in self._fields.items()})


class Snapshot:
    """Immutable copy of an object's fields (lists copied)."""

    def __init__(self, name, fields):
        self.__dict__["_name"] = name
        self.__dict__["_fields"] = fields

    def __getattr__(self, k):
        try:
            return self.__dict__["_fields"][k]
        except KeyError:
            raise AttributeError(k)

    def __repr__(self):
        return "<Snapshot %s %r>" % (self._name, self._fields)


def snap_value(v):
    if isinstance(v, (SList, SChunks, SSet)):
        return v.copy()
    if isinstance(v, list):
        return [snap_value(e) for e in v]
    if isinstance(v, dict):
        return dict(v)
    return v


class SSet:
    """A finite set of integers: membership array plus a ghost cardinality that `add` keeps in step.
    TRUSTED (finite-set arithmetic): a set all of whose members lie in [lo, hi) has at most hi - lo members;
    `within` adds that instance (Finset.card_le_card into Finset.Ico, lemmas/Pigeonhole.lean)."""

    def __init__(self, arr=None, card=0):
        self.arr = arr if arr is not None else z3.K(z3.IntSort(), z3.BoolVal(False))
        self.card = card

    @staticmethod
    def fresh(name):
        return SSet(z3.Const(name, z3.ArraySort(z3.IntSort(), z3.BoolSort())), SInt(z3.Int(name + "!card")))

    def copy(self):
        return SSet(self.arr, self.card)

    def contains(self, x):
        return mk_bool(z3.simplify(z3.Select(self.arr, num_term(x))))

    __contains__ = contains

    def add(self, x):
        t = num_term(x)
        was = z3.Select(self.arr, t)
        self.card = mk_num(z3.If(was, num_term(self.card), num_term(self.card) + 1))
        self.arr = z3.Store(self.arr, t, z3.BoolVal(True))

    def within(self, lo, hi):
        y = z3.Int("sset!y")
        inside = z3.ForAll([y], z3.Implies(z3.Select(self.arr, y), z3.And(y >= num_term(lo), y < num_term(hi))))
        c = num_term(self.card)
        ctx().assume(z3.Implies(inside, z3.And(c >= 0, c <= num_term(hi) - num_term(lo))))  # the trusted instance
        return mk_bool(inside)


class SChunks:
    """A list of byte/str chunks of which only the concatenation is
    observable (built with append/extend, consumed by b"".join).  Used for
    the `r = []; r.append(...); b"".join(r)` idiom inside loops."""

    def __init__(self, joined, kind="bytes"):
        self.joined = joined
        self.kind = kind

    def append(self, x):
        if kind_of(x) != self.kind:
            raise Unsupported("append of %r to a %s chunk list" % (type(x).__name__, self.kind))
        self.joined = self.joined + x

    def extend(self, xs):
        for x in xs:
            self.append(x)

    def copy(self):
        return SChunks(self.joined, self.kind)

    def __add__(self, o):
        return SChunks(self.joined + joined(o, self.kind), self.kind)

    def __radd__(self, o):
        return SChunks(joined(o, self.kind) + self.joined, self.kind)

    def __bool__(self):
        return ctx().decide(as_bool_term(slen(self.joined) > 0)) if is_sym(self.joined) else bool(self.joined)

    def __repr__(self):
        return "SChunks(%r)" % (self.joined,)


def joined(r, kind="bytes"):
    """Concatenation of a chunk list (SChunks or a plain list of chunks)."""
    if isinstance(r, SChunks):
        return r.joined
    out = b"" if kind == "bytes" else ""
    for x in r:
        out = out + x
    return out


class SList:
    """Mutable list of symbolic length.  `elem` describes the element kind:
    'int', 'val' (opaque), ('ref', cls), 'bytes' (list of byte strings is
    not supported here)."""

    def __init__(self, seq, elem="val"):
        self.seq = seq
        self.elem = elem

    def sort(self):
        return self.seq.sort()

    def copy(self):
        return SList(self.seq, self.elem)

    def wrap(self, t):
        if self.elem == "int":
            return mk_num(t)
        if self.elem == "val":
            return SAny(t)
        if isinstance(self.elem, tuple) and self.elem[0] == "ref":
            return SRef(t, self.elem[1])
        raise Unsupported("list element kind %r" % (self.elem,))

    def unwrap(self, v):
        if self.elem == "int":
            return num_term(v)
        if isinstance(v, (SAny, SRef)):
            return v.term
        raise Unsupported("cannot store %r in symbolic list of %r" % (type(v), self.elem))

    def lit(self, items):
        if not items:
            return z3.Empty(self.seq.sort())
        us = [z3.Unit(self.unwrap(v)) for v in items]
        return us[0] if len(us) == 1 else z3.Concat(*us)

    # list API used by interpreted code
    def append(self, v):
        self.seq = z3.simplify(z3.Concat(self.seq, z3.Unit(self.unwrap(v))))

    def pop(self, i=-1):
        n = z3.Length(self.seq)
        if not ctx().decide(n > 0):
            raise IndexError("pop from empty list")
        if isinstance(i, int) and i == 0:
            v = self.wrap(z3.simplify(self.seq[0]))
            self.seq = z3.simplify(z3.SubSeq(self.seq, 1, n - 1))
            return v
        if isinstance(i, int) and i == -1:
            v = self.wrap(z3.simplify(self.seq[n - 1]))
            self.seq = z3.simplify(z3.SubSeq(self.seq, 0, n - 1))
            return v
        raise Unsupported("list.pop(%r) on symbolic list" % (i,))

    def reverse(self):
        """list.reverse(): a fresh sequence of the same length with seq'[j] == seq[n-1-j].  A contract that created the
        list may have registered the reversed view it wants to reason about (ghost 'reversed_views': term id -> term);
        it is then responsible for that view's relation to the list (stated in its trusted base)."""
        c = ctx()
        pre = c.ghost.get("reversed_views", {}).get(self.seq.get_id())
        if pre is not None:
            self.seq = pre
            return None
        n = z3.Length(self.seq)
        new = z3.Const(c.fresh_name("reversed"), self.seq.sort())
        j = z3.Int(c.fresh_name("rvq"))
        c.assume(z3.Length(new) == n)
        c.assume(z3.ForAll([j], z3.Implies(z3.And(j >= 0, j < n), new[j] == self.seq[n - 1 - j])))
        self.seq = new
        return None

    def remove(self, v):
        t = self.unwrap(v)
        u = z3.Unit(t)
        c = ctx()
        if not c.decide(z3.Contains(self.seq, u)):
            raise ValueError("list.remove(x): x not in list")
        # first occurrence j, introduced as a fresh index with its defining properties (easier for the
        # solvers than seq.indexof): seq[j] == v and no earlier element equals v
        n = z3.Length(self.seq)
        j = z3.Int(c.fresh_name("rm"))
        m = z3.Int(c.fresh_name("rmq"))
        c.assume(z3.And(j >= 0, j < n, self.seq[j] == t))
        c.assume(z3.ForAll([m], z3.Implies(z3.And(m >= 0, m < j), self.seq[m] != t)))
        self.seq = z3.simplify(z3.Concat(z3.SubSeq(self.seq, 0, j), z3.SubSeq(self.seq, j + 1, n - j - 1)))

    def __getitem__(self, i):
        n = z3.Length(self.seq)
        if isinstance(i, slice):
            lo, ln = slice_bounds(i, n)
            return SList(z3.simplify(z3.SubSeq(self.seq, lo, ln)), self.elem)
        t = num_term(i)
        if not ctx().decide(z3.And(t >= -n, t < n)):
            raise IndexError("list index out of range")
        return self.wrap(z3.simplify(self.seq[norm_index(i, n)]))

    def __add__(self, o):
        if isinstance(o, SList):
            return SList(z3.simplify(z3.Concat(self.seq, o.seq)), self.elem)
        if isinstance(o, list):
            return SList(z3.simplify(z3.Concat(self.seq, self.lit(o))), self.elem)
        return NotImplemented

    def __radd__(self, o):
        if isinstance(o, list):
            return SList(z3.simplify(z3.Concat(self.lit(o), self.seq)), self.elem)
        return NotImplemented

    def __eq__(self, o):
        return veq(self, o)

    def __ne__(self, o):
        return bnot(veq(self, o))

    __hash__ = object.__hash__

    def __bool__(self):
        return ctx().decide(z3.Length(self.seq) > 0)

    def contains(self, v):
        return mk_bool(z3.Contains(self.seq, z3.Unit(self.unwrap(v))))

    def __repr__(self):
        return "SList(%s)" % self.seq


# --------------------------------------------------------------------------
# fresh symbolic inputs


NONNEG_IDS = set()  # names of integer constants assumed >= 0 at creation (cleared at the start of every run)


def known_nonneg(t):
    """Syntactic sufficient condition for t >= 0 (used to simplify slice bounds)."""
    if z3.is_int_value(t):
        return t.as_long() >= 0
    if z3.is_const(t):
        return t.decl().name() in NONNEG_IDS
    if z3.is_app(t):
        k = t.decl().kind()
        if k == z3.Z3_OP_ADD or k == z3.Z3_OP_MUL:
            return all(known_nonneg(c) for c in t.children())
        if k == z3.Z3_OP_SEQ_LENGTH:
            return True
    return False


def fresh_int(name, lo=None, hi=None):
    c = ctx()
    t = z3.Int(name)
    c.symbols[name] = ("int", t)
    if lo is not None and lo >= 0:
        NONNEG_IDS.add(name)
    if lo is not None:
        c.assume(t >= lo)
    if hi is not None:
        c.assume(t <= hi)
    return SInt(t)


def fresh_real(name):
    t = z3.Real(name)
    ctx().symbols[name] = ("real", t)
    return SReal(t)


def fresh_bool(name):
    t = z3.Bool(name)
    ctx().symbols[name] = ("bool", t)
    return SBool(t)


def fresh_seq(name, kind="bytes", maxlen=None, minlen=None):
    SEQ_IN_USE[0] = True
    t = z3.Const(name, IntSeq)
    c = ctx()
    c.symbols[name] = (kind, t)
    if maxlen is not None:
        c.assume(z3.Length(t) <= maxlen)
    if minlen is not None:
        c.assume(z3.Length(t) >= minlen)
    return SSeq(t, kind, False, maxlen if (maxlen is not None and maxlen <= 16) else None)


def fresh_any(name):
    t = z3.Const(name, ValSort)
    ctx().symbols[name] = ("val", t)
    return SAny(t)


def fresh_list(name, elem="val"):
    if elem == "int":
        sort = IntSeq
    elif elem == "val":
        sort = z3.SeqSort(ValSort)
    elif isinstance(elem, tuple) and elem[0] == "ref":
        sort = IntSeq
    else:
        raise Unsupported("list elem %r" % (elem,))
    SEQ_IN_USE[0] = True
    t = z3.Const(name, sort)
    ctx().symbols[name] = ("list:%s" % (elem,), t)
    return SList(t, elem)


def at(s, i):
    """Element i of a bytes value for use in specifications: total (no
    IndexError fork); unspecified when i is out of range."""
    if not is_sym(s) and not is_sym(i):
        return s[i] if -len(s) <= i < len(s) else -1
    t = seq_term(s)
    n = z3.Length(t)
    e = z3.simplify(t[norm_index(i, n)])
    return mk_num(e)


def all_bytes(s, pred):
    """Universally quantified statement over the elements of a sequence:
    pred receives an SInt and returns a boolean.  For concrete sequences it
    is evaluated natively."""
    if not is_sym(s):
        return all(pred(b) for b in (s if isinstance(s, (bytes, bytearray)) else map(ord, s)))
    k = getattr(s, "maxlen", None)
    if k is not None and k <= 16:
        # a static length bound is known: finite conjunction instead of a quantifier
        n = z3.Length(s.term)
        return mk_bool(z3.And(n <= k, *[z3.Implies(n > q, as_bool_term(pred(SInt(s.term[q])))) for q in range(k)]))
    i = z3.Int(ctx().fresh_name("k"))
    body = as_bool_term(pred(SInt(s.term[i])))
    return SBool(z3.ForAll([i], z3.Implies(z3.And(i >= 0, i < z3.Length(s.term)), body)))


def pointwise_eq(a, b, offset=0):
    """a[offset : offset + len(b)] == b stated element by element (long enough, same element at every index).  By
    extensionality this is the slice equality, but it lets the solvers reason about one index at a time."""
    if not is_sym(a) and not is_sym(b) and not is_sym(offset):
        return bytes(a[offset: offset + len(b)]) == bytes(b) if not isinstance(a, str) else a[offset: offset + len(b)] == b
    kind = a.kind if isinstance(a, SSeq) else b.kind if isinstance(b, SSeq) else None
    ta, tb, off = seq_term(a, kind), seq_term(b, kind), num_term(offset)
    i = z3.Int(ctx().fresh_name("pw"))
    return SBool(z3.And(off >= 0, z3.Length(ta) >= off + z3.Length(tb),
                        z3.ForAll([i], z3.Implies(z3.And(i >= 0, i < z3.Length(tb)), ta[off + i] == tb[i]))))


def model_value(model, kind, name):
    """Concrete Python value of input symbol `name` under a model dict."""
    v = model.get(name)
    if kind == "int":
        return v if isinstance(v, int) and not isinstance(v, bool) else 0
    if kind == "bool":
        return bool(v) if isinstance(v, bool) else False
    if kind == "real":
        if isinstance(v, dict) and "num" in v:
            return v["num"] / v["den"]
        if isinstance(v, int):
            return float(v)
        return 0.0
    if kind in ("bytes", "str"):
        vals = v.get("seq") if isinstance(v, dict) else None
        if vals is None:
            vals = []
        if kind == "bytes":
            return bytes([x % 256 for x in vals])
        return "".join(chr(x % 0x110000) for x in vals)
    return str(v)
