"""Known findings (DESIGN.md 2.12): read-only view of /verif/known_findings.json."""
from __future__ import annotations

import json
import os

_ROOT = os.path.dirname(os.path.dirname(os.path.abspath(__file__)))
_CACHE = None


def load():
    global _CACHE
    if _CACHE is None:
        path = os.path.join(_ROOT, "known_findings.json")
        try:
            with open(path) as f:
                _CACHE = json.load(f)
        except FileNotFoundError:
            _CACHE = []
    return _CACHE


def _compile(entry):
    from . import api, core
    env = {"L": api.L, "band": core.band, "bor": core.bor, "bnot": core.bnot, "implies": core.implies,
           "len": api.L, "isinstance": isinstance, "bytes": bytes, "str": str, "int": int, "tuple": tuple,
           "any": any, "all": all, "list": list, "set": set, "sorted": sorted, "min": min, "max": max}
    import importlib
    # region predicates may use helper predicates exported by the bounded module of their property
    env["parts"] = lambda p: importlib.import_module("contracts.parts.%s_bounded" % p)

    def contains_bytes(x, needle):
        """does any bytes/str leaf of a nested case contain `needle`?"""
        if isinstance(x, (bytes, bytearray)):
            return needle in bytes(x) if isinstance(needle, bytes) else False
        if isinstance(x, str):
            return needle in x if isinstance(needle, str) else False
        if isinstance(x, (tuple, list)):
            return any(contains_bytes(e, needle) for e in x)
        if isinstance(x, dict):
            return any(contains_bytes(e, needle) for e in x.values())
        return False

    env["contains_bytes"] = contains_bytes
    code = compile(entry["region"], "<known-finding %s>" % entry.get("id"), "eval")
    # one namespace (not globals + locals): comprehensions inside a region expression only see globals
    return lambda i, what="": eval(code, dict(env, i=i, case=i, what=what))


def for_obligation_prefix(contract_name):
    out = []
    for e in load():
        if "fixed" in e or "region" not in e:
            continue
        if e.get("contract") == contract_name:
            d = dict(e)
            d["fn"] = _compile(e)
            out.append(d)
    return out


def for_property(prop):
    return [e for e in load() if e.get("property") == prop and "fixed" not in e]
