"""pyvc.models -- models ("library contracts", DESIGN.md 2.3) of builtins and
bytes/str methods over symbolic values.  Every model is an axiom about
CPython; each is exercised against CPython by selfcheck.py.
"""
from __future__ import annotations

import builtins
import struct
import types

import z3

from . import core
from .core import (
    SAny, SBool, SInt, SList, SObj, SReal, SRef, SSeq, SV, Unsupported, as_bool_term, band, bnot, bor, ctx, is_sym,
    kind_of, mk_bool, mk_num, num_term, seq_term, slen, veq,
)

USED_AXIOMS = set()


def axiom(name):
    USED_AXIOMS.add(name)


class SDict:
    """Symbolic dict placeholder (contracts provide concrete subclasses)."""

    def nonempty(self):
        raise Unsupported("SDict.nonempty")


SAFE_MODULES = {
    "builtins", "struct", "_struct", "binascii", "base64", "math", "operator", "itertools", "functools", "re",
    "string", "collections", "_collections", "typing", "enum", "hashlib", "_hashlib", "_md5", "_sha1", "_sha2",
    "textwrap", "codecs", "_codecs", "urllib.parse", "posixpath", "genericpath", "copy", "numbers", "abc", "types",
    "_operator", "_functools", "email.utils", "calendar", "time_", "io", "_io", "fractions", "decimal", "zlib",
    "unicodedata", "ipaddress", "_sre", "sre_compile", "heapq", "_heapq", "bisect", "_bisect", "warnings",
    "_warnings", "_abc", "hmac", "_blake2", "_sha3", "_sha512", "_sha256",
}


def is_safe_native(fn) -> bool:
    mod = getattr(fn, "__module__", None)
    if isinstance(fn, (types.BuiltinFunctionType, types.BuiltinMethodType, types.MethodDescriptorType,
                       types.WrapperDescriptorType, types.MethodWrapperType, types.ClassMethodDescriptorType)):
        slf = getattr(fn, "__self__", None)
        if isinstance(slf, types.ModuleType):
            return slf.__name__ in SAFE_MODULES
        return True
    if isinstance(fn, type):
        return (fn.__module__ in SAFE_MODULES) or issubclass(fn, BaseException)
    if mod in SAFE_MODULES:
        return True
    if isinstance(fn, types.MethodType):
        return is_safe_native(fn.__func__)
    if hasattr(fn, "__call__") and type(fn).__module__ in SAFE_MODULES:
        return True
    return False


# -- isinstance ---------------------------------------------------------------


def sym_isinstance(interp, v, cls):
    if isinstance(cls, tuple):
        r = False
        for c in cls:
            r = bor(r, sym_isinstance(interp, v, c))
        return r
    if isinstance(v, SBool):
        return cls in (bool, int, object)
    if isinstance(v, SInt):
        return cls in (int, object)
    if isinstance(v, SReal):
        return cls in (float, object)
    if isinstance(v, SSeq):
        return cls in ((bytes, object) if v.kind == "bytes" else (str, object))
    if isinstance(v, SList):
        return cls in (list, object)
    if isinstance(v, SObj):
        if v._cls is None:
            key = "isinstance:%s" % v._name
            if key in interp.calls:
                return interp.calls[key](interp, v, cls)
            return cls is object
        return issubclass(v._cls, cls)
    if isinstance(v, SRef):
        if isinstance(v.cls, type):
            return issubclass(v.cls, cls)
        return v.cls == cls.__name__ or cls is object
    if isinstance(v, SAny):
        key = "isinstance:%s" % (v.tag or "value")
        if key in interp.calls:
            return interp.calls[key](interp, v, cls)
        if cls is object:
            return True
        return mk_bool(core.any_pred("is_" + cls.__name__)(v.term))
    from .interp import PyFunc, BoundMethod
    if isinstance(v, PyFunc):
        return cls in (types.FunctionType, object)
    if isinstance(v, BoundMethod):
        return cls in (types.MethodType, object)
    return isinstance(v, cls)


# -- spec functions (recursive definitions) ----------------------------------

_REC = {}


def dec_val():
    """dec_val(s): value of a sequence of ASCII digits, most significant first."""
    if "dec_val" not in _REC:
        f = z3.RecFunction("dec_val", core.IntSeq, z3.IntSort())
        s = z3.Const("s", core.IntSeq)
        n = z3.Length(s)
        z3.RecAddDefinition(f, [s], z3.If(n <= 0, 0, f(z3.SubSeq(s, 0, n - 1)) * 10 + (s[n - 1] - 48)))
        _REC["dec_val"] = f
    return _REC["dec_val"]


def hex_val():
    """hex_val(s): value of a sequence of ASCII hex digits (either case)."""
    if "hex_val" not in _REC:
        f = z3.RecFunction("hex_val", core.IntSeq, z3.IntSort())
        s = z3.Const("s", core.IntSeq)
        n = z3.Length(s)
        c = s[n - 1]
        d = z3.If(c <= 57, c - 48, z3.If(c <= 70, c - 55, c - 87))
        z3.RecAddDefinition(f, [s], z3.If(n <= 0, 0, f(z3.SubSeq(s, 0, n - 1)) * 16 + d))
        _REC["hex_val"] = f
    return _REC["hex_val"]


def is_digit_term(c):
    return z3.And(c >= 48, c <= 57)


def all_elems_of(x, pred_term_fn):
    """forall elements of the (symbolic) sequence value x: a finite conjunction when a static
    length bound is known, a quantified formula otherwise."""
    t = seq_term(x)
    k = getattr(x, "maxlen", None)
    if k is not None:
        n = z3.Length(t)
        return z3.And(n <= k, *[z3.Implies(n > q, pred_term_fn(t[q])) for q in range(k)])
    return all_elems(t, pred_term_fn)


def all_elems(seq, pred_term_fn):
    i = z3.Int(ctx().fresh_name("q"))
    return z3.ForAll([i], z3.Implies(z3.And(i >= 0, i < z3.Length(seq)), pred_term_fn(seq[i])))


# -- builtins -------------------------------------------------------------------


def builtin_call(interp, fn, args, kwargs):
    """Return (handled, value)."""
    from .interp import SymRange
    sym = core.deep_sym(args) or core.deep_sym(kwargs)
    if fn is builtins.len:
        (x,) = args
        if isinstance(x, (SSeq, SList)):
            return True, slen(x)
        if isinstance(x, SObj):
            return True, interp.call(interp.getattr(x, "__len__"), [])
        if isinstance(x, SDict):
            return True, x.length()
        return True, len(x)
    if fn is builtins.isinstance:
        return True, sym_isinstance(interp, args[0], args[1])
    if fn is builtins.type and len(args) == 1:
        x = args[0]
        if isinstance(x, SObj):
            return True, x._cls
        if isinstance(x, SInt):
            return True, int
        if isinstance(x, SBool):
            return True, bool
        if isinstance(x, SSeq):
            return True, bytes if x.kind == "bytes" else str
        if isinstance(x, SReal):
            return True, float
        if is_sym(x):
            raise Unsupported("type() of %r" % type(x))
        return True, type(x)
    if fn is builtins.range:
        if sym:
            a = list(args)
            if len(a) == 1:
                return True, SymRange(0, a[0], 1)
            if len(a) == 2:
                return True, SymRange(a[0], a[1], 1)
            return True, SymRange(a[0], a[1], a[2])
        return True, range(*args)
    if not sym and fn in (builtins.min, builtins.max, builtins.abs, builtins.int, builtins.bytes, builtins.str,
                          builtins.bool, builtins.ord, builtins.chr, builtins.tuple, builtins.list,
                          builtins.enumerate, builtins.zip, builtins.sum, builtins.any, builtins.all,
                          builtins.divmod, builtins.sorted, builtins.reversed, builtins.repr, builtins.hex,
                          builtins.float, builtins.round, builtins.set, builtins.frozenset, builtins.dict,
                          builtins.bytearray, builtins.memoryview, builtins.iter, builtins.next, builtins.format,
                          builtins.id, builtins.hash, builtins.pow, builtins.oct, builtins.bin, builtins.ascii,
                          builtins.issubclass, builtins.slice, builtins.object):
        if not any(isinstance(a, (SObj,)) for a in args):
            return True, fn(*args, **kwargs)
    if fn is builtins.min:
        return True, core.vmin(*args)
    if fn is builtins.max:
        return True, core.vmax(*args)
    if fn is builtins.abs:
        return True, abs(args[0])
    if fn is builtins.bool:
        v = args[0] if args else False
        if isinstance(v, (SBool, SInt, SSeq, SList)):
            return True, mk_bool(as_bool_term(v))
        return True, interp.truth(v)
    if fn is builtins.int:
        return True, to_int(interp, *args, **kwargs)
    if fn is builtins.float:
        (x,) = args
        if isinstance(x, (SInt, int)):
            return True, SReal(z3.ToReal(num_term(x)))
        if isinstance(x, SReal):
            return True, x
        raise Unsupported("float() of %r" % type(x))
    if fn is builtins.ord:
        (x,) = args
        if isinstance(x, SSeq):
            if not interp.truth(slen(x) == 1):
                raise TypeError("ord() expected a character")
            e = x.term[0]
            if x.kind == "bytes":
                ctx().assume(z3.And(e >= 0, e <= 255))
            return True, mk_num(e)
        return True, ord(x)
    if fn is builtins.chr:
        (x,) = args
        if isinstance(x, SInt):
            if not interp.truth(band(x >= 0, x < 0x110000)):
                raise ValueError("chr() arg not in range")
            return True, SSeq(z3.Unit(x.term), "str")
        return True, chr(x)
    if fn is builtins.bytes:
        if len(args) == 1:
            x = args[0]
            if isinstance(x, SSeq) and x.kind == "bytes":
                return True, x
            if isinstance(x, (list, tuple)):
                if all(isinstance(e, int) for e in x):
                    return True, bytes(x)
                for e in x:
                    if not interp.truth(band(e >= 0, e <= 255)):
                        raise ValueError("bytes must be in range(0, 256)")
                t = z3.Concat(*[z3.Unit(num_term(e)) for e in x]) if len(x) > 1 else (
                    z3.Unit(num_term(x[0])) if x else z3.Empty(core.IntSeq))
                return True, core._seq_value(t, "bytes")
        raise Unsupported("bytes(%r)" % (args,))
    if fn is builtins.bytearray:
        if len(args) == 1 and isinstance(args[0], SSeq):
            return True, args[0]
    if fn is builtins.memoryview:
        return True, args[0]
    if fn is builtins.str:
        if len(args) == 1:
            x = args[0]
            if isinstance(x, SSeq) and x.kind == "str":
                return True, x
            from .interp import MessageStr
            return True, MessageStr("<?>")
    if fn is builtins.repr or fn is builtins.format:
        from .interp import MessageStr
        return True, MessageStr("<?>")
    if fn is builtins.tuple:
        x = args[0] if args else ()
        if isinstance(x, (list, tuple)):
            return True, tuple(x)
        raise Unsupported("tuple() of %r" % type(x))
    if fn is builtins.list:
        x = args[0] if args else []
        if isinstance(x, (list, tuple)):
            return True, list(x)
        if isinstance(x, SList):
            return True, x.copy()
        if isinstance(x, dict):
            return True, list(x)
        raise Unsupported("list() of %r" % type(x))
    if fn is builtins.enumerate:
        x = args[0]
        if isinstance(x, (list, tuple)):
            start = args[1] if len(args) > 1 else kwargs.get("start", 0)
            return True, [(start + i, e) for i, e in enumerate(x)]
        raise Unsupported("enumerate() of %r" % type(x))
    if fn is builtins.zip:
        if all(isinstance(x, (list, tuple)) for x in args):
            return True, list(zip(*args))
        raise Unsupported("zip() of symbolic sequences")
    if fn is builtins.sum:
        x = args[0]
        if isinstance(x, (list, tuple)):
            r = args[1] if len(args) > 1 else 0
            for e in x:
                r = r + e
            return True, r
        raise Unsupported("sum() of %r" % type(x))
    if fn in (builtins.any, builtins.all):
        x = args[0]
        if isinstance(x, (list, tuple)):
            for e in x:
                t = interp.truth(e)
                if fn is builtins.any and t:
                    return True, True
                if fn is builtins.all and not t:
                    return True, False
            return True, fn is builtins.all
        raise Unsupported("any/all of %r" % type(x))
    if fn is builtins.divmod:
        return True, (args[0] // args[1], args[0] % args[1])
    if fn is builtins.hasattr:
        o, name = args
        try:
            interp.getattr(o, name)
            return True, True
        except AttributeError:
            return True, False
    if fn is builtins.getattr:
        o, name = args[0], args[1]
        try:
            return True, interp.getattr(o, name)
        except AttributeError:
            if len(args) > 2:
                return True, args[2]
            raise
    if fn is builtins.setattr:
        interp.setattr(*args)
        return True, None
    if fn is builtins.callable:
        from .interp import PyFunc, BoundMethod, Opaque
        x = args[0]
        if isinstance(x, (PyFunc, BoundMethod, Opaque)):
            return True, True
        if isinstance(x, SObj):
            return True, x._opaque or (x._cls is not None and hasattr(x._cls, "__call__"))
        if is_sym(x):
            raise Unsupported("callable() of symbolic value")
        return True, callable(x)
    if fn is builtins.id:
        if isinstance(args[0], SObj):
            return True, id(args[0])
    if fn is builtins.sorted:
        raise Unsupported("sorted() with symbolic elements")
    if fn is struct.pack:
        return True, struct_pack(interp, *args)
    if fn is struct.unpack:
        return True, struct_unpack(interp, *args)
    if fn is struct.calcsize:
        return True, struct.calcsize(*args)
    if isinstance(fn, (types.BuiltinMethodType, types.BuiltinFunctionType)):
        slf = getattr(fn, "__self__", None)
        if isinstance(slf, (bytes, str)) and sym:
            return True, seq_method(interp, slf, fn.__name__, args, kwargs)
        if isinstance(slf, list) and fn.__name__ in ("append", "extend", "insert", "pop", "remove", "index",
                                                      "count", "clear", "copy", "reverse"):
            if fn.__name__ in ("remove", "index", "count") and (core.deep_sym(args) or core.deep_sym(slf)):
                return True, list_search(interp, slf, fn.__name__, args)
            if fn.__name__ in ("pop", "insert") and args and is_sym(args[0]):
                raise Unsupported("list.%s with symbolic index" % fn.__name__)
            return True, fn(*args, **kwargs)
        if isinstance(slf, dict) and fn.__name__ in ("get", "pop", "setdefault", "items", "keys", "values",
                                                      "update", "copy", "clear"):
            if args and is_sym(args[0]) and fn.__name__ in ("get", "pop", "setdefault"):
                k = args[0]
                for kk in list(slf):
                    if interp.truth(veq(k, kk)):
                        return True, fn(kk, *args[1:])
                if fn.__name__ == "setdefault":
                    raise Unsupported("dict.setdefault with fresh symbolic key")
                if len(args) > 1:
                    return True, args[1]
                if fn.__name__ == "get":
                    return True, None
                raise KeyError(k)
            return True, fn(*args, **kwargs)
        if isinstance(slf, (set, frozenset)) and not sym:
            return True, fn(*args, **kwargs)
    return False, None


def list_search(interp, lst, name, args):
    x = args[0]
    if name == "count":
        r = 0
        for e in lst:
            r = r + core.ite(interp.equals(e, x), 1, 0)
        return r
    for i, e in enumerate(lst):
        if interp.truth(interp.equals(e, x)):
            if name == "remove":
                del lst[i]
                return None
            return i
    raise ValueError("list.%s(x): x not in list" % name)


def to_int(interp, x=0, base=10):
    if isinstance(x, SInt):
        return x
    if isinstance(x, SBool):
        return mk_num(z3.If(x.term, 1, 0))
    if isinstance(x, SReal):
        # int(float) truncates toward zero.  For a quotient num/den (den > 0) the result k is defined by
        # k*den <= num < (k+1)*den (num >= 0) or the mirrored condition (num < 0): no division term is left.
        c = ctx()
        t = x.term
        k = z3.Int(c.fresh_name("trunc"))
        if z3.is_app(t) and t.decl().kind() == z3.Z3_OP_DIV:
            num, den = t.arg(0), t.arg(1)
            if not interp.truth(mk_bool(den > 0)):
                raise Unsupported("int() of a quotient with a possibly non-positive divisor")
        else:
            num, den = t, z3.RealVal(1)
        kr = z3.ToReal(k)
        if interp.truth(mk_bool(num >= 0)):
            c.assume(z3.And(kr * den <= num, num < (kr + 1) * den))
        else:
            c.assume(z3.And((kr - 1) * den < num, num <= kr * den))
        return mk_num(k)
    if isinstance(x, SSeq):
        t = x.term
        if base == 10:
            axiom("int(digits): ASCII digit strings parse to their decimal value (other inputs: outside the model)")
            ok = z3.And(z3.Length(t) > 0, all_elems_of(x, is_digit_term))
            if interp.truth(mk_bool(ok)):
                return mk_num(dec_val()(t))
            raise Unsupported("int() of a string not known to be all digits")
        if base == 16:
            axiom("int(hexdigits,16): ASCII hex digit strings parse to their base-16 value")
            ishex = lambda c: z3.Or(z3.And(c >= 48, c <= 57), z3.And(c >= 65, c <= 70), z3.And(c >= 97, c <= 102))
            ok = z3.And(z3.Length(t) > 0, all_elems_of(x, ishex))
            if interp.truth(mk_bool(ok)):
                k = getattr(x, "maxlen", None)
                if k is not None:
                    # closed form for short strings: sum of digit values
                    hv = lambda c: z3.If(c <= 57, c - 48, z3.If(c <= 70, c - 55, c - 87))
                    n = z3.Length(t)
                    v = z3.IntVal(0)
                    for q in range(k):
                        v = z3.If(n > q, v * 16 + hv(t[q]), v)
                    return mk_num(v)
                return mk_num(hex_val()(t))
            raise Unsupported("int(,16) of a string not known to be all hex digits")
    if is_sym(x) or is_sym(base):
        raise Unsupported("int(%r, %r)" % (type(x), base))
    return int(x, base) if isinstance(x, (str, bytes, bytearray)) else int(x)


# -- struct ---------------------------------------------------------------------

_FMT = {"B": 1, "H": 2, "I": 4, "L": 4, "Q": 8,
        # signed (two's complement): a negative width marks them
        "b": -1, "h": -2, "i": -4, "l": -4, "q": -8}


def _parse_fmt(fmt):
    if isinstance(fmt, bytes):
        fmt = fmt.decode()
    if not isinstance(fmt, str):
        raise Unsupported("symbolic struct format")
    order = "@"
    if fmt and fmt[0] in "@=<>!":
        order, fmt = fmt[0], fmt[1:]
    if order not in (">", "!"):
        raise Unsupported("struct format byte order %r" % order)
    items = []
    count = ""
    for ch in fmt:
        if ch.isdigit():
            count += ch
            continue
        if ch not in _FMT:
            raise Unsupported("struct format char %r" % ch)
        items.extend([_FMT[ch]] * (int(count) if count else 1))
        count = ""
    if count:
        raise Unsupported("struct format %r" % fmt)
    return items


def struct_pack(interp, fmt, *vals):
    if not core.deep_sym(vals) and not is_sym(fmt):
        return struct.pack(fmt, *vals)
    axiom("struct.pack('>B/H/I/L/Q'): big-endian fixed-width, struct.error outside [0, 2^(8w))")
    sizes = _parse_fmt(fmt)
    if len(sizes) != len(vals):
        raise struct.error("pack expected %d items" % len(sizes))
    parts = []
    for w, v in zip(sizes, vals):
        if not isinstance(v, (int, SInt)):
            raise struct.error("required argument is not an integer")
        if w < 0:
            w = -w
            if not interp.truth(band(v >= -(256 ** w) // 2, v < (256 ** w) // 2)):
                raise struct.error("argument out of range")
            t = num_term(v)
            t = z3.If(t < 0, t + 256 ** w, t)  # two's complement
        else:
            if not interp.truth(band(v >= 0, v < 256 ** w)):
                raise struct.error("argument out of range")
            t = num_term(v)
        # digits as fresh byte variables tied to the value by one linear equation (the base-256
        # representation is unique, so this is exact and keeps div/mod out of the sequence terms)
        digits = [z3.Int(ctx().fresh_name("pk")) for _ in range(w)]
        for d in digits:
            ctx().assume(z3.And(d >= 0, d <= 255))
        ctx().assume(t == sum(d * (256 ** (w - 1 - k)) for k, d in enumerate(digits)))
        for d in digits:
            parts.append(z3.Unit(d))
    term = parts[0] if len(parts) == 1 else z3.Concat(*parts)
    return core._seq_value(term, "bytes")


def struct_unpack(interp, fmt, data):
    if not is_sym(data) and not is_sym(fmt):
        return struct.unpack(fmt, data)
    axiom("struct.unpack('>B/H/I/L/Q'): inverse of pack, struct.error unless len(data)==calcsize")
    sizes = _parse_fmt(fmt)
    total = sum(abs(w) for w in sizes)
    if not interp.truth(slen(data) == total):
        raise struct.error("unpack requires a buffer of %d bytes" % total)
    t = seq_term(data)
    out = []
    pos = 0
    for sw in sizes:
        w = abs(sw)
        v = z3.IntVal(0)
        for k in range(w):
            e = t[pos + k]
            ctx().assume(z3.And(e >= 0, e <= 255))
            v = v * 256 + e
        if sw < 0:
            v = z3.If(v >= (256 ** w) // 2, v - 256 ** w, v)  # two's complement
        out.append(mk_num(v))
        pos += w
    return tuple(out)


# -- bytes / str methods -----------------------------------------------------------


def seq_method(interp, recv, name, args, kwargs):
    sym = is_sym(recv) or core.deep_sym(args) or core.deep_sym(kwargs)  # keyword arguments too ("...".format(name=x))
    if not sym:
        return getattr(recv, name)(*args, **kwargs)
    kind = kind_of(recv)
    hook = getattr(interp, "calls", {}).get("%s.%s" % (kind, name))
    if hook is not None:  # a contract-level library axiom for this method (listed in its trusted base)
        r = hook(interp, recv, *args, **kwargs)
        if r is not NotImplemented:
            return r
    t = seq_term(recv)
    n = z3.Length(t)
    if name == "startswith":
        if len(args) == 1:
            return core.seq_startswith(recv, args[0])
    if name == "endswith":
        if len(args) == 1:
            return core.seq_endswith(recv, args[0])
    if name == "find":
        axiom("bytes.find(sub[, start]): first index of sub at or after start, or -1")
        if len(args) <= 2:
            start = args[1] if len(args) == 2 else 0
            if is_sym(start) or start != 0:
                st = num_term(start)
                # Python clamps start; z3 indexof returns -1 for start > len
                st = z3.If(st < 0, z3.If(st + n < 0, 0, st + n), st)
                return mk_num(z3.IndexOf(t, seq_term(args[0]), st))
            return mk_num(z3.IndexOf(t, seq_term(args[0]), 0))
        if len(args) == 3 and not is_sym(args[1]) and args[1] == 0:
            # find(sub, 0, end): search inside t[:end] (end clamped like a slice bound)
            lo, ln = core.slice_bounds(slice(0, args[2]), n)
            return mk_num(z3.IndexOf(z3.SubSeq(t, lo, ln), seq_term(args[0]), 0))
    if name == "index" and len(args) == 1:
        r = mk_num(z3.IndexOf(t, seq_term(args[0]), 0))
        if interp.truth(r < 0):
            raise ValueError("subsection not found")
        return r
    if name == "isdigit" and not args:
        axiom("bytes.isdigit(): non-empty and every byte in 0x30..0x39")
        if kind != "bytes":
            raise Unsupported("str.isdigit (Unicode digits)")
        return mk_bool(z3.And(n > 0, all_elems_of(recv, is_digit_term)))
    if name == "join":
        (parts,) = args
        if isinstance(parts, core.SChunks):
            if is_sym(recv) or len(recv):
                raise Unsupported("join of a chunk list with a non-empty separator")
            if parts.kind != kind:
                raise TypeError("sequence item: expected %s" % kind)
            return parts.joined
        if isinstance(parts, (list, tuple)):
            r = None
            for i, p in enumerate(parts):
                if kind_of(p) != kind:
                    raise TypeError("sequence item %d: expected %s" % (i, kind))
                if r is None:
                    r = p
                else:
                    r = r + recv + p if (is_sym(recv) or len(recv)) else r + p
            if r is None:
                return b"" if kind == "bytes" else ""
            return r
        raise Unsupported("join of symbolic-length list")
    if name == "partition" and len(args) == 1:
        axiom("bytes.partition(sep): split at first occurrence")
        sep = args[0]
        st = seq_term(sep)
        k = z3.IndexOf(t, st, 0)
        if interp.truth(mk_bool(k >= 0)):
            ls = z3.Length(st)
            return (core._seq_value(z3.SubSeq(t, 0, k), kind), sep,
                    core._seq_value(z3.SubSeq(t, k + ls, n - k - ls), kind))
        empty = b"" if kind == "bytes" else ""
        return (recv, empty, empty)
    if name == "split" and len(args) == 2 and args[1] == 1 and args[0] is not None:
        axiom("bytes.split(sep, 1): split at first occurrence")
        a, s, b = seq_method(interp, recv, "partition", [args[0]], {})
        if is_sym(s) or len(s):
            return [a, b]
        return [a]
    if name in ("decode", "encode"):
        enc = (args[0] if args else kwargs.get("encoding", "utf-8")).lower().replace("_", "-")
        if enc in ("ascii", "us-ascii", "utf-8", "utf8", "charmap", "latin-1", "iso-8859-1", "latin1"):
            axiom("ascii/utf-8/latin-1 codecs are the identity on code points < 128")
            hi = 256 if enc in ("charmap", "latin-1", "iso-8859-1", "latin1") else 128
            ok = True if core.is_ascii(recv) else mk_bool(all_elems_of(recv, lambda c: z3.And(c >= 0, c < hi)))
            if interp.truth(ok):
                return core._seq_value(t, "str" if name == "decode" else "bytes", core.is_ascii(recv))
            if enc in ("ascii", "us-ascii"):
                raise (UnicodeDecodeError if name == "decode" else UnicodeEncodeError)(enc, b"" if name == "decode" else "", 0, 1, "ordinal not in range(128)")
            raise Unsupported("%s of non-ASCII symbolic text" % name)
    if name == "tobytes" and not args:
        return recv
    if name == "hex":
        raise Unsupported("bytes.hex on symbolic")
    if name in ("lower", "upper") and not args:
        axiom("bytes.lower/upper: bytewise ASCII case mapping, length preserving")
        r = core.fresh_seq(ctx().fresh_name(name), kind)
        i = z3.Int(ctx().fresh_name("q"))
        c = t[i]
        if name == "lower":
            m = z3.If(z3.And(c >= 65, c <= 90), c + 32, c)
        else:
            m = z3.If(z3.And(c >= 97, c <= 122), c - 32, c)
        if kind != "bytes":
            raise Unsupported("str.lower/upper (Unicode)")
        ctx().assume(z3.Length(r.term) == n)
        ctx().assume(z3.ForAll([i], z3.Implies(z3.And(i >= 0, i < n), r.term[i] == m)))
        return r
    if name == "replace" and len(args) == 2 and not is_sym(args[0]) and not is_sym(args[1]) and len(args[0]) > 0:
        # exact only where at most one (non-overlapping) occurrence fits: z3's replace substitutes the first one
        if not interp.truth(mk_bool(z3.Contains(t, seq_term(args[0])))):
            return recv  # no occurrence at all
        if interp.truth(mk_bool(n < 2 * len(args[0]))):
            axiom("bytes.replace(old, new) on a value shorter than two copies of old: the first occurrence, if any, is substituted")
            return core._seq_value(z3.Replace(t, seq_term(args[0]), seq_term(args[1])), kind)
        if len(args[0]) == 1 and interp.truth(mk_bool(n <= 8)):
            # a one-byte pattern on a short value: substitute byte by byte (exact)
            axiom("bytes.replace with a one-byte pattern acts on every byte independently")
            old_e = seq_term(args[0])[0]
            new_t = seq_term(args[1])
            for k in range(0, 9):
                if interp.truth(mk_bool(n == k)):
                    parts = [z3.If(t[j] == old_e, new_t, z3.Unit(t[j])) for j in range(k)]
                    if not parts:
                        return recv
                    return core._seq_value(parts[0] if len(parts) == 1 else z3.Concat(*parts), kind)
        raise Unsupported("replace on a symbolic value that may hold several occurrences")
    if name == "strip" and not args and kind == "bytes":
        axiom("bytes.strip(): the slice between the first and the last byte that is not ASCII whitespace (9-13, 32)")
        c = ctx()
        a, b, q = z3.Int(c.fresh_name("strip_a")), z3.Int(c.fresh_name("strip_b")), z3.Int(c.fresh_name("q"))
        ws = lambda e: z3.Or(z3.And(e >= 9, e <= 13), e == 32)
        c.assume(z3.And(0 <= a, a <= b, b <= n))
        c.assume(z3.ForAll([q], z3.Implies(z3.And(q >= 0, q < a), ws(t[q]))))
        c.assume(z3.ForAll([q], z3.Implies(z3.And(q >= b, q < n), ws(t[q]))))
        c.assume(z3.Or(a == b, z3.And(z3.Not(ws(t[a])), z3.Not(ws(t[b - 1])))))
        return core._seq_value(z3.SubSeq(t, a, b - a), kind)
    if name == "count" and len(args) == 1:
        raise Unsupported("count on symbolic sequence")
    raise Unsupported("method %s.%s on symbolic value" % (kind, name))


def slist_method(interp, lst, name):
    raise Unsupported("list method %s on symbolic list" % name)


def contains(interp, container, x):
    if isinstance(container, (SSeq,)) or (isinstance(container, (bytes, str)) and is_sym(x)):
        return core.seq_contains(container, x)
    if isinstance(container, SList):
        return container.contains(x)
    if isinstance(container, SDict):
        return container.has(x)
    if isinstance(container, core.SSet):
        return container.contains(x)
    if isinstance(container, SObj):
        return interp.call(interp.getattr(container, "__contains__"), [x])
    if isinstance(container, (list, tuple)):
        r = False
        for e in container:
            r = bor(r, interp.equals(x, e))
            if r is True:
                return True
        return r
    if isinstance(container, (set, frozenset, dict)) or hasattr(container, "__contains__"):
        if is_sym(x):
            if isinstance(x, SInt) and all(isinstance(e, int) for e in container):
                es = sorted(container)
                if not es:
                    return False
                return mk_bool(z3.Or(*[x.term == e for e in es]))
            if isinstance(x, SSeq) and all(isinstance(e, (bytes, str)) for e in container):
                r = False
                for e in sorted(container):
                    r = bor(r, veq(x, e))
                return r
            if isinstance(x, SObj):
                return any(e is x for e in container)
            raise Unsupported("membership of symbolic value in %r" % type(container))
        return x in container
    raise Unsupported("'in' on %r" % type(container))


def seq_compare(interp, op, a, b):
    raise Unsupported("ordering comparison on symbolic sequences")


_DIGS = b"0123456789abcdef"


def hexenc():
    """hexenc(n): lower-case hex digits of n >= 0, no leading zeros (\"0\" for 0)."""
    if "hexenc" not in _REC:
        f = z3.RecFunction("hexenc", z3.IntSort(), core.IntSeq)
        n = z3.Int("n")
        d = n % 16
        ch = z3.If(d < 10, 48 + d, 87 + d)
        z3.RecAddDefinition(f, [n], z3.If(n < 16, z3.Unit(ch), z3.Concat(f(n / 16), z3.Unit(ch))))
        _REC["hexenc"] = f
    return _REC["hexenc"]


def decenc():
    if "decenc" not in _REC:
        f = z3.RecFunction("decenc", z3.IntSort(), core.IntSeq)
        n = z3.Int("n")
        ch = 48 + n % 10
        z3.RecAddDefinition(f, [n], z3.If(n < 10, z3.Unit(ch), z3.Concat(f(n / 10), z3.Unit(ch))))
        _REC["decenc"] = f
    return _REC["decenc"]


def percent_format(interp, fmt, arg):
    if not core.deep_sym(arg) and not is_sym(fmt):
        return fmt % arg
    if is_sym(fmt):
        raise Unsupported("symbolic format string")
    from .interp import MessageStr
    kind = kind_of(fmt)
    args = list(arg) if isinstance(arg, tuple) else [arg]
    s = fmt if isinstance(fmt, bytes) else fmt.encode("latin-1")
    conv = (lambda b: b) if kind == "bytes" else (lambda b: b.decode("latin-1"))
    out = []
    i = 0
    lit = bytearray()
    while i < len(s):
        if s[i] != 37:
            lit.append(s[i])
            i += 1
            continue
        if i + 1 >= len(s):
            raise ValueError("incomplete format")
        if s[i + 1:i + 4] in (b"02X", b"02x"):
            # two hex digits, zero padded (same model as format(n, '02X'))
            spec = s[i + 1:i + 4].decode()
            i += 4
            if lit:
                out.append(conv(bytes(lit)))
                lit = bytearray()
            if not args:
                raise TypeError("not enough arguments for format string")
            v = args.pop(0)
            if isinstance(v, int) and not isinstance(v, bool):
                out.append(conv(("%" + spec) .encode() % v) if kind == "bytes" else ("%" + spec) % v)
                continue
            if isinstance(v, SInt):
                r = format_int(interp, v, spec)
                if r is None:
                    raise Unsupported("%%%s of a symbolic int outside 0..255" % spec)
                out.append(r if kind == "str" else core._seq_value(r.term, "bytes", True))
                continue
            raise Unsupported("%%%s formatting of %r" % (spec, type(v)))
        c = chr(s[i + 1])
        i += 2
        if c == "%":
            lit.append(37)
            continue
        if lit:
            out.append(conv(bytes(lit)))
            lit = bytearray()
        if not args:
            raise TypeError("not enough arguments for format string")
        v = args.pop(0)
        if c in "xd" and isinstance(v, (int, SInt)) and not isinstance(v, bool):
            if isinstance(v, int):
                out.append(conv((b"%" + c.encode()) % v))
            else:
                axiom("%x / %d formatting of non-negative ints: minimal lower-case digits")
                if not interp.truth(v >= 0):
                    if kind == "str":
                        # text built for messages: its content is outside the model (comparing it is refused)
                        return MessageStr("<?>")
                    raise Unsupported("%%%s of a possibly negative symbolic int" % c)
                out.append(SSeq((hexenc() if c == "x" else decenc())(v.term), kind, True))
        elif c in "sb" and kind == "bytes" and kind_of(v) == "bytes":
            out.append(v)
        elif c == "s" and kind == "str" and kind_of(v) == "str" and not isinstance(v, MessageStr):
            out.append(v)
        elif kind == "str":
            return MessageStr("<?>")
        else:
            raise Unsupported("%%%s formatting of %r" % (c, type(v)))
    if lit:
        out.append(conv(bytes(lit)))
    if args:
        raise TypeError("not all arguments converted during formatting")
    r = conv(b"")
    for p in out:
        r = r + p
    return r


def format_int(interp, v, spec):
    """format(v, spec) for a symbolic int and the specs '', 'd', 'x', 'X', '02x', '02X' as a symbolic str;
    None when the spec is not modelled."""
    if spec in ("02X", "02x"):
        axiom("format(n, '02X'): two hex digits for 0 <= n <= 255")
        if not interp.truth(band(v >= 0, v <= 255)):
            raise Unsupported("format(n, %r) outside 0..255" % spec)
        a = 55 if spec == "02X" else 87
        hi, lo = v.term / 16, v.term % 16
        dig = lambda d: z3.If(d < 10, 48 + d, a + d)
        return SSeq(z3.Concat(z3.Unit(dig(hi)), z3.Unit(dig(lo))), "str", True)
    if spec in ("", "d"):
        if not interp.truth(v >= 0):
            return None
        return SSeq(decenc()(v.term), "str", True)
    if spec == "x":
        if not interp.truth(v >= 0):
            return None
        return SSeq(hexenc()(v.term), "str", True)
    return None


def seq_repeat(interp, a, b):
    raise Unsupported("sequence repetition with symbolic operand")
