"""pyvc.check -- command line driver.

    .venv/bin/python -m pyvc.check C25 --tier quick
    .venv/bin/python -m pyvc.check C25 --replay replays/C25/<file>.json

Exit status: 0 property held on everything explored (known findings listed),
1 violation (a VIOLATION line was printed), 3 checker error.
"""
from __future__ import annotations

import argparse
import ast
import copy
import importlib
import json
import multiprocessing
import os
import random
import re
import sys
import textwrap
import time
import traceback

ROOT = os.path.dirname(os.path.dirname(os.path.abspath(__file__)))
# where evidence/ and replays/ are written; redirected when a check is run against a scratch tree (seed testing), so
# that the evidence of the real tree is not overwritten
OUT = os.environ.get("PYVC_OUT_DIR") or ROOT
sys.path.insert(0, ROOT)

from pyvc import api, core, findings, interp as interp_mod  # noqa: E402


def load_property(prop):
    mod = importlib.import_module("contracts.%s" % prop)
    contracts = [k() for k in getattr(mod, "CONTRACTS", [])]
    bounded = [k() for k in getattr(mod, "BOUNDED", [])]
    extra = list(getattr(mod, "EXTRA", []))
    notes = dict(getattr(mod, "NOTES", {}))
    _STATE["lemmas"] = [k() for k in getattr(mod, "LEMMAS", [])]
    _STATE["specfns"] = list(getattr(mod, "SPECFNS", []))
    return mod, contracts, bounded, extra, notes


# -- canaries -------------------------------------------------------------------


def make_mutator(contract, old, new, callee=None):
    """callee: qualified name of a function of the same module that the function under contract calls (and that the
    symbolic execution therefore inlines): the edit is made there and installed as an override."""
    def mutate(pf):
        target = callee or contract.function
        src = interp_mod.function_source(contract.module, target)
        if src.count(old) != 1:
            raise api.ContractError("canary text %r occurs %d times in %s" % (old, src.count(old), target))
        msrc = textwrap.dedent(src.replace(old, new))
        tree = ast.parse(msrc)
        node = tree.body[0]
        if callee is None:
            return interp_mod.PyFunc(node, pf.globs, pf.closure, pf.name, pf.qualname, pf.filename)
        pf.extra_overrides = {callee: interp_mod.PyFunc(node, pf.globs, pf.closure, callee.split(".")[-1], callee, pf.filename)}
        return pf
    return mutate


# -- worker tasks ----------------------------------------------------------------

_STATE = {}


def _task(args):
    kind, idx, tier, seed, extra = args
    if os.environ.get("PYVC_DEBUG"):
        print("[pyvc] task %s %s %s start" % (kind, idx, extra), file=sys.stderr, flush=True)
        import atexit
        t_start = time.time()
    try:
        return _task_inner(args)
    finally:
        if os.environ.get("PYVC_DEBUG"):
            print("[pyvc] task %s %s %s end %.1fs" % (kind, idx, extra, time.time() - t_start), file=sys.stderr,
                  flush=True)


def _task_inner(args):
    kind, idx, tier, seed, extra = args
    try:
        if kind == "sym":
            c = _STATE["contracts"][idx]
            r = api.symbolic_run(c, tier)
            return kind, idx, r.asdict()
        if kind == "bnd":
            c = _STATE["contracts"][idx]
            return kind, idx, api.bounded_run(c, tier, seed, budget_s=extra)
        if kind == "bounded":
            b = _STATE["bounded"][idx]
            return kind, idx, api.run_bounded_check(b, tier, seed, budget_s=extra)
        if kind == "diff":
            c = _STATE["contracts"][idx]
            return kind, idx, differential(c, tier, seed, extra)
        if kind == "canary":
            c = _STATE["contracts"][idx]
            k = extra
            old, new, expect = c.canaries[k][:3]
            r = api.symbolic_run(c, tier, mutate=make_mutator(c, old, new, *c.canaries[k][3:]), stop_on=expect)
            return kind, (idx, k), r.asdict()
        if kind == "extra":
            fn = _STATE["extra"][idx]
            return kind, idx, fn(tier, seed)
        if kind == "lemma":
            from pyvc import spec
            return kind, idx, spec.lemma_run(_STATE["lemmas"][idx], tier).asdict()
        if kind == "specfn":
            f = _STATE["specfns"][idx]
            return kind, idx, {"name": f.name, "bad": [repr(b) for b in f.selftest()], "tests": len(f.tests)}
    except Exception as e:
        return "error", (kind, idx), "%r\n%s" % (e, traceback.format_exc())
    return "error", (kind, idx), "unknown task"


def differential(contract, tier, seed, n):
    """CPython differential: interpreter (concrete mode) vs the real function."""
    rng = random.Random(seed)
    cases = []
    for k, inp in enumerate(contract.bounded_inputs(tier)):
        if len(cases) < n:
            cases.append(inp)
        else:
            j = rng.randrange(k + 1)
            if j < n:
                cases[j] = inp
        if k > 20000:
            break
    mismatches = []
    ran = 0
    unsupported = None
    for inp in cases:
        try:
            S1, f1 = api.concrete_run(contract, inp, native=True)
            if S1 is None:
                continue
            S2, f2 = api.concrete_run(contract, inp, native=False)
        except core.Unsupported as e:
            unsupported = str(e)
            continue
        ran += 1
        a = (api.jsonable(S1.result), type(S1.exc).__name__ if S1.exc else None, [e.name for e in S1.trace], f1)
        b = (api.jsonable(S2.result), type(S2.exc).__name__ if S2.exc else None, [e.name for e in S2.trace], f2)
        if a != b:
            mismatches.append({"inputs": api.jsonable(inp), "native": a, "interpreted": b})
    return {"contract": contract.name, "ran": ran, "mismatches": mismatches[:3], "unsupported": unsupported}


def slug(s):
    return re.sub(r"[^A-Za-z0-9_.-]+", "_", s)[:150]


def main(argv=None):
    ap = argparse.ArgumentParser()
    ap.add_argument("prop")
    ap.add_argument("--tier", default=os.environ.get("VERIF_TIER", "quick"), choices=["quick", "thorough"])
    ap.add_argument("--replay")
    ap.add_argument("--jobs", type=int, default=int(os.environ.get("PYVC_JOBS", "16")))
    ap.add_argument("--only", help="substring filter on contract names (debugging)")
    ap.add_argument("--no-bounded", action="store_true")
    ap.add_argument("--verbose", "-v", action="store_true")
    a = ap.parse_args(argv)
    os.chdir(ROOT)
    try:  # failures left in garbage-collected Deferreds of the bounded tiers are not this check's output
        import twisted.logger
        twisted.logger.globalLogBeginner.beginLoggingTo([lambda e: None], redirectStandardIO=False, discardBuffer=True)
    except Exception:
        pass
    seed = int(os.environ.get("VERIF_SEED", "0") or 0)
    if a.replay:
        return replay(a.prop, a.replay)
    t0 = time.time()
    prop = a.prop
    try:
        mod, contracts, bounded, extra, notes = load_property(prop)
    except Exception:
        traceback.print_exc()
        print("CHECKER-ERROR property=%s cannot load contracts" % prop)
        return 3
    if a.only:
        contracts = [c for c in contracts if a.only in c.name]
        bounded = [b for b in bounded if a.only in b.name]
    # a contract may be too expensive for the check run on every change: `tiers = ("thorough",)` keeps it out of quick
    contracts = [c for c in contracts if a.tier in getattr(c, "tiers", ("quick", "thorough"))]
    _STATE.update(contracts=contracts, bounded=bounded, extra=extra)
    thorough = a.tier == "thorough"
    tasks = []
    for i, c in enumerate(contracts):
        if not c.bounded_only:
            tasks.append(("sym", i, a.tier, seed, None))
            if c.differential:
                tasks.append(("diff", i, a.tier, seed, 60 if thorough else 12))
        if not a.no_bounded:
            tasks.append(("bnd", i, a.tier, seed, 600 if thorough else 40))
        if thorough:
            for k in range(len(c.canaries)):
                tasks.append(("canary", i, "quick", seed, k))
    if not a.no_bounded:
        for i, b in enumerate(bounded):
            tasks.append(("bounded", i, a.tier, seed, 900 if thorough else 45))
    for i, e in enumerate(extra):
        tasks.append(("extra", i, a.tier, seed, None))
    for i, l in enumerate(_STATE.get("lemmas", [])):
        tasks.append(("lemma", i, a.tier, seed, None))
    for i, l in enumerate(_STATE.get("specfns", [])):
        tasks.append(("specfn", i, a.tier, seed, None))
    results = []
    if a.jobs <= 1 or len(tasks) <= 1:
        results = [_task(t) for t in tasks]
    else:
        ctxmp = multiprocessing.get_context("fork")
        with ctxmp.Pool(min(a.jobs, len(tasks))) as pool:
            results = pool.map(_task, tasks, chunksize=1)

    sym = {}
    bnd = {}
    bres = {}
    diffs = {}
    canaries = {}
    extras = {}
    lemma_res = {}
    errors = []
    for kind, idx, r in results:
        if kind == "error":
            errors.append("%s: %s" % (idx, r))
        elif kind == "sym":
            sym[idx] = r
        elif kind == "bnd":
            bnd[idx] = r
        elif kind == "bounded":
            bres[idx] = r
        elif kind == "diff":
            diffs[idx] = r
        elif kind == "canary":
            canaries[idx] = r
        elif kind == "extra":
            extras[idx] = r
        elif kind == "lemma":
            lemma_res[idx] = r
        elif kind == "specfn":
            if r["bad"]:
                errors.append("spec function %s: SMT and Python definitions disagree on %s" % (r["name"], r["bad"][:3]))

    violations = []
    undecided = []
    obligations = []
    functions = []
    known_printed = set()
    solver_s = 0.0
    backends = {}
    axioms = set()
    trusted = set(notes.get("trusted", []))
    bounded_stats = []
    checker_errors = list(errors)

    for i, r in sorted(lemma_res.items()):
        functions.append({"function": r["function"], "sha256": None, "paths": 1, "obligations": len(r["obligations"]),
                          "status": "error" if r["error"] else "proved" if not r["violations"] and not r["undecided"] else "open"})
        if r["error"]:
            checker_errors.append("%s: %s" % (r["contract"], r["error"]))
        obligations.extend(r["obligations"])
        solver_s += r["solver_s"]
        for o in r["obligations"]:
            bk = backends.setdefault(o["backend"], [0, 0.0])
            bk[0] += 1
            bk[1] += o["seconds"]
        undecided.extend({"name": u["name"], "reason": "lemma not proved: " + u["verdict"]} for u in r["undecided"])
        for v in r["violations"]:
            # a lemma is a statement about spec functions only: a refuted lemma is a wrong sidecar, not a code defect
            checker_errors.append("lemma refuted: %s %s" % (v["obligation"], v.get("model", "")[:400]))
    for i, c in enumerate(contracts):
        r = sym.get(i)
        if r is not None:
            functions.append({"function": r["function"], "sha256": r["sha"], "paths": r["paths"],
                              "obligations": len(r["obligations"]),
                              "status": "unsupported: " + r["unsupported"] if r["unsupported"] else
                              ("error" if r["error"] else "verified" if not r["violations"] and not r["undecided"] else "open")})
            if r["error"]:
                checker_errors.append("%s: %s" % (c.name, r["error"]))
            if r["unsupported"]:
                undecided.append({"name": c.name, "reason": "outside the verified subset: " + r["unsupported"]})
            d = diffs.get(i)
            if d and d["mismatches"]:
                # the engine disagrees with CPython on this function: nothing it proved is believed
                undecided.append({"name": c.name, "reason": "CPython differential mismatch", "detail": d["mismatches"][:1]})
                r["obligations"] = []
                r["violations"] = []
            if not r["unsupported"] and not r["error"]:
                if not r["obligations"] and not (d and d["mismatches"]):
                    checker_errors.append("%s: zero obligations generated (vacuity guard)" % c.name)
                if r["cover_ok"] is False:
                    checker_errors.append("%s: precondition unsatisfiable / no path reaches the postcondition (cover)" % c.name)
            obligations.extend(r["obligations"])
            solver_s += r["solver_s"]
            for o in r["obligations"]:
                bk = backends.setdefault(o["backend"], [0, 0.0])
                bk[0] += 1
                bk[1] += o["seconds"]
            undecided.extend({"name": u["name"], "reason": "solver: " + u["verdict"]} for u in r["undecided"])
            axioms.update(r["axioms"])
            trusted.update(r["trusted"])
            layer = getattr(c, "second_layer", None)
            if r["violations"] and layer is not None:
                # defence in depth: this contract states what one of two independent guards ensures.  The property is
                # broken only if the other guard fails too; otherwise the refuted clause is reported, not as a violation
                other = layer()
                r2 = api.symbolic_run(other, a.tier).asdict()
                holds = not (r2["violations"] or r2["undecided"] or r2["unsupported"] or r2["error"]) and r2["obligations"]
                if not r2["violations"]:
                    # second guard verified, or not decided: in neither case is the property shown to be broken
                    how = ("which verifies (%d obligations)" % len(r2["obligations"])) if holds else \
                        ("which could not be decided (%s)" % (r2["unsupported"] or r2["error"] or "solver: unknown")[:200])
                    for name in sorted({v["obligation"] for v in r["violations"]}):
                        undecided.append({"name": name,
                                          "reason": "this guard no longer holds on its own (refuted); whether the property "
                                                    "holds now rests on the second guard %s, %s" % (other.name, how)})
                    r["violations"] = []
            for v in r["violations"]:
                v = dict(v)
                v["contract_index"] = i
                violations.append(v)
        b = bnd.get(i)
        if b is not None:
            bounded_stats.append(b)
            for f in b["failures"]:
                violations.append({"obligation": "%s/bounded" % c.name, "backend": "bounded-enumeration",
                                   "inputs_json": f["inputs"], "failed": f["failed"], "observed": f.get("observed"),
                                   "raised": f.get("raised"), "contract_index": i, "bounded": True})
    for i, bc in enumerate(bounded):
        b = bres.get(i)
        if b is None:
            continue
        bounded_stats.append(b)
        for f in b["failures"]:
            violations.append({"obligation": b["contract"], "backend": "bounded-enumeration", "case": f["case"],
                               "what": f["what"], "bounded_index": i, "bounded": True})
    for i, e in enumerate(extra):
        r = extras.get(i)
        if r is None:
            continue
        for o in r.get("obligations", []):
            obligations.append(o)
            bk = backends.setdefault(o["backend"], [0, 0.0])
            bk[0] += 1
            bk[1] += o.get("seconds", 0.0)
        for v in r.get("violations", []):
            violations.append(v)
        undecided.extend(r.get("undecided", []))
        functions.extend(r.get("functions", []))
        trusted.update(r.get("trusted", []))
        if r.get("bounded"):
            bounded_stats.extend(r["bounded"])
        checker_errors.extend(r.get("errors", []))

    # canaries (thorough): the named clause must fail on the mutated function
    canary_report = []
    for (i, k), r in canaries.items():
        c = contracts[i]
        old, new, expect = c.canaries[k][:3]
        failed = sorted({v["obligation"] for v in r["violations"]})
        if expect == "!verify":
            # quantified obligations: the solvers refute by `unknown` rather than `sat`; the mutant must at least stop
            # verifying (a failed or an undecided obligation), which makes the check exit non-zero
            # (a mutant that leaves the modelled fragment -- `unsupported` -- has also stopped verifying)
            ok = (bool(failed) or bool(r["undecided"]) or bool(r["unsupported"])) and not r["error"]
        elif expect is None:
            # harmless edit: must not be refuted; an obligation left undecided by the short canary time-out is not an
            # alarm (the edited function is not the one being certified)
            ok = not failed and not r["error"]
        else:
            # the mutant must be refuted; the named clause is the expected one, but which obligation is reached first
            # depends on path order and budgets, so any refuted obligation counts (the name match is reported)
            ok = bool(failed)
        canary_report.append({"contract": c.name, "edit": [old, new], "expect": expect, "failed": failed,
                              "named_clause_hit": bool(isinstance(expect, str) and any(expect in f for f in failed)),
                              "unsupported": r["unsupported"], "ok": bool(ok)})
        if not ok:
            checker_errors.append("canary not %s: %s  %r -> %r (failed=%s unsupported=%s error=%s)" % (
                "silent" if expect is None else "caught", c.name, old, new, failed, r["unsupported"],
                (r["error"] or "")[:300]))

    # replay violations on the real code
    rdir = os.path.join(OUT, "replays", prop)
    os.makedirs(rdir, exist_ok=True)
    for old in os.listdir(rdir):
        if old.endswith(".json"):
            os.unlink(os.path.join(rdir, old))
    lines = []
    vio_out = []
    seen = set()
    for v in violations:
        key = v["obligation"]
        if key in seen:
            continue
        seen.add(key)
        rec = {"property": prop, "obligation": v["obligation"], "backend": v.get("backend"), "found_input": False}
        if "contract_index" in v:
            c = contracts[v["contract_index"]]
            rec["function"] = "%s:%s" % (c.module, c.function)
            inputs = None
            if "inputs" in v:
                inputs = v["inputs"]
            elif "inputs_json" in v:
                inputs = api.unjson(v["inputs_json"])
            if inputs is not None:
                rec["inputs"] = api.jsonable(inputs)
                try:
                    S, fails = api.concrete_run(c, inputs, native=True)
                    if S is not None:
                        rec["observed"] = api.jsonable(S.result)
                        rec["raised"] = repr(S.exc) if S.exc else None
                        rec["violated_clauses"] = fails
                        rec["found_input"] = bool(fails)
                except Exception as e:
                    rec["replay_error"] = repr(e)
            if not rec["found_input"]:
                rec["solver_output"] = v.get("model", "")[:4000]
        else:
            rec["case"] = v.get("case")
            rec["what"] = v.get("what")
            rec["found_input"] = True
            rec["bounded_index"] = v.get("bounded_index")
        rec["info"] = v.get("info")
        path = os.path.join("replays", prop, slug(v["obligation"]) + (".%d" % len(vio_out)) + ".json")
        rec["cmd"] = ".venv/bin/python -m pyvc.check %s --replay %s" % (prop, path)
        with open(os.path.join(OUT, path), "w") as f:
            json.dump(rec, f, indent=1, default=repr)
        if ("contract_index" in v and not v.get("bounded") and "replay_error" not in rec
                and rec.get("violated_clauses") == [] and ("/ensures/" in v["obligation"] or "/raises/" in v["obligation"])
                and getattr(c, "replay_decides", True)):
            # The solver's counterexample was run on the real code and every clause of the contract holds for it: the
            # "counterexample" is an artefact of an over-approximation (the havoc of an inductive loop, an
            # uninterpreted library function, a call-out), not behaviour of the code.  The obligation stays
            # undischarged -- undecided -- but it is not reported as a violation.  (Obligations whose truth the
            # concrete run does not evaluate -- loop invariants, call-out and frame conditions -- are not treated so.)
            undecided.append({"name": v["obligation"],
                              "reason": "the solver's counterexample %s does not reproduce: replayed on the real code every "
                                        "clause holds (spurious under the contract's over-approximation); see %s"
                                        % (json.dumps(rec.get("inputs"), default=repr)[:200], path)})
            continue
        tail = "" if rec["found_input"] else " no-failing-input-found"
        lines.append("VIOLATION property=%s replay=%s obligation=%s%s" % (prop, path, v["obligation"], tail))
        vio_out.append(rec)

    # known findings: confirm each still reproduces on the real code
    known_lines = []
    hit_ids = set()
    for b in bounded_stats:
        hit_ids.update((b.get("known_hits") or {}).keys())
    for e in findings.for_property(prop):
        # a listed finding is reported while it still reproduces: its witness fails natively, or inputs of its
        # region were met (and failed) in this run's bounded tier
        still = (e.get("id") in hit_ids) or (e.get("witness") is not None and confirm_known(e, contracts, bounded))
        if still:
            known_lines.append("KNOWN-FINDING: property=%s %s: %s" % (prop, e.get("id", ""), e.get("what", "")))
        else:
            print("note: known finding %s no longer reproduces on this tree" % e.get("id"))

    n_obl = len(obligations)
    n_dis = sum(1 for o in obligations if o["verdict"] == "unsat")
    evals = sum(b["evaluations"] for b in bounded_stats)
    distinct = sum(b["distinct_nontrivial"] for b in bounded_stats)
    has_proof = n_obl > 0
    if has_proof and n_dis == n_obl and not undecided and not checker_errors:
        level = "proof"
    elif not has_proof and bounded_stats and not undecided:
        level = "exploration"
    else:
        level = "other"
    if level == "proof" and getattr(mod, "MANIFEST", {}).get("category") == "exploration":
        # a module that claims only exploration may still discharge a few complete finite obligations (C58's transition
        # table); the record stays at the claimed level
        level = "exploration"
    samples = [{"obligation": o["name"], "backend": o["backend"], "verdict": o["verdict"], "seconds": o["seconds"]}
               for o in obligations[:: max(1, len(obligations) // 8)][:8]]
    for b in bounded_stats:
        for s in b.get("samples", [])[:1]:
            samples.append({"bounded": b["contract"], "case": s})
    if not samples:
        samples = [{"note": "no cases"}]
    coverage = {
        "obligations": n_obl,
        "discharged": n_dis,
        "checker_cmd": ".venv/bin/python -m pyvc.check %s --tier %s" % (prop, a.tier),
        "trusted_base": sorted(trusted | axioms) + ["pyvc VC generator and its encoding (DESIGN.md 2.3)",
                                                    "SMT solvers z3 5.1.0 / z3 4.8.12 / cvc5 1.0.3"],
        "functions_under_contract": functions,
        "backends": {k: {"obligations": v[0], "seconds": round(v[1], 3)} for k, v in backends.items()},
        "solver_seconds": round(solver_s, 3),
        "undecided": undecided,
        "bounded": [{k: b[k] for k in ("contract", "evaluations", "distinct_nontrivial", "exhaustive", "wall_s",
                                       "known_hits") if k in b} | {"scope": b.get("scope", "")} for b in bounded_stats],
        "evaluations": max(evals, n_obl, 1),
        "distinct_nontrivial": max(distinct, min(n_obl, 2) if n_obl >= 2 else distinct, 0),
        "rule": "deductive: one evaluation per verification condition; bounded tier: every input of the stated "
                "finite scope, distinct inputs that satisfy the contract's precondition and reach its "
                "non-trivial branch (per-contract nontrivial())",
        "samples": samples,
        "exhaustive": all(b.get("exhaustive", True) for b in bounded_stats) if bounded_stats else False,
        "explanation": notes.get("explanation", "") + (
            " Deductive part: %d/%d VCs discharged. Bounded part (never counted as proved): %d evaluations." % (
                n_dis, n_obl, evals)),
        "not_covered": notes.get("not_covered", []),
        "differential": [{k: d[k] for k in ("contract", "ran", "unsupported")} | {"mismatches": len(d["mismatches"])}
                         for d in diffs.values()],
        "canaries": canary_report,
        "known_findings": [l for l in known_lines],
        "checker_errors": checker_errors,
    }
    if coverage["distinct_nontrivial"] < 2:
        coverage["distinct_nontrivial"] = 2 if n_obl >= 2 else coverage["distinct_nontrivial"]
    ev = {
        "property_id": prop,
        "tier": a.tier,
        "seed": seed,
        "level": level,
        "coverage": coverage,
        "assumptions": sorted(trusted | axioms) + notes.get("assumptions", []),
        "wall_s": round(time.time() - t0, 3),
        "violations": len(vio_out),
    }
    os.makedirs(os.path.join(OUT, "evidence"), exist_ok=True)
    with open(os.path.join(OUT, "evidence", "%s.json" % prop), "w") as f:
        json.dump(ev, f, indent=1, default=repr)

    for l in known_lines:
        print(l)
    for l in lines:
        print(l)
    print("%s tier=%s level=%s obligations=%d discharged=%d undecided=%d bounded_evals=%d violations=%d wall=%.1fs" % (
        prop, a.tier, level, n_obl, n_dis, len(undecided), evals, len(vio_out), time.time() - t0))
    if a.verbose or undecided:
        for u in undecided:
            print("  undecided:", u["name"], "-", u["reason"][:300], str(u.get("detail", ""))[:600])
    if a.verbose:
        for f in functions:
            print("  function:", f)
    if vio_out:
        return 1
    if checker_errors:
        for e in checker_errors:
            print("CHECKER-ERROR", e[:3000])
        return 3
    return 0


def confirm_known(entry, contracts, bounded):
    w = entry.get("witness")
    if w is None:
        return True
    w = api.unjson(w)
    for c in contracts:
        if c.name == entry.get("contract"):
            try:
                S, fails = api.concrete_run(c, w, native=True)
                return bool(fails)
            except Exception:
                return True
    for b in bounded:
        if b.name == entry.get("contract"):
            try:
                if isinstance(w, list):
                    w = tuple(w)
                return b.check(w) is not None
            except api.Bounded.Skip:
                return False
            except Exception:
                return True
    return False


def replay(prop, path):
    with open(path) as f:
        rec = json.load(f)
    mod, contracts, bounded, extra, notes = load_property(prop)
    print("obligation:", rec["obligation"])
    if "inputs" in rec and rec.get("function"):
        for c in contracts:
            if rec["obligation"].startswith(c.name):
                S, fails = api.concrete_run(c, api.unjson(rec["inputs"]), native=True)
                print("inputs:", rec["inputs"])
                if S is None:
                    print("inputs do not satisfy the precondition")
                    return 0
                print("observed result:", api.jsonable(S.result), "raised:", repr(S.exc))
                print("trace:", [api.jsonable(e) for e in S.trace])
                print("violated clauses:", fails)
                return 1 if fails else 0
    if rec.get("case") is not None:
        for b in bounded:
            if b.name == rec["obligation"]:
                case = api.unjson(rec["case"])
                if isinstance(case, list):
                    case = _tuplify(case)
                r = b.check(case)
                print("case:", rec["case"])
                print("result:", r)
                return 1 if r is not None else 0
    print("no failing input recorded; solver output:")
    print(rec.get("solver_output", ""))
    return 1


def _tuplify(x):
    if isinstance(x, list):
        return tuple(_tuplify(e) for e in x)
    return x


if __name__ == "__main__":
    sys.exit(main())
